#!/bin/bash
# usage: runtests.sh <repo> <outjson>
. /verif/bin/env.sh
cd "$1" && $GO test -vet=off -count=1 -json -skip 'TestMkdirFromMarkdown$|TestMkdirFromRoot$' . ./markdown 2>/dev/null | python3 -c "
import json,sys,collections
res={}
for l in sys.stdin:
    try: e=json.loads(l)
    except: continue
    if e.get('Test') and e.get('Action') in ('pass','fail','skip'): res[e['Package'].split('/')[-1]+'::'+e['Test']]=e['Action']
json.dump(res,open('$2','w'))
print(collections.Counter(res.values()))
print('FAILED:',[k for k,v in res.items() if v=='fail'][:30])"
cd "$1" && git status --short | head -5
