#!/usr/bin/env python3
# developer helper (never run by a check): add the violation signatures of the last run of <ID> to known_findings.json
import json,sys
pid=sys.argv[1]
ev=json.load(open('/verif/evidence/%s.json'%pid))
k=json.load(open('/verif/known_findings.json'))
have={(f['property'],f['signature']) for f in k['findings']}
for sig,n in sorted(ev['coverage']['violation_signatures'].items()):
    if (pid,sig) not in have:
        k['findings'].append({"property":pid,"signature":sig,"what":"TODO describe","witness":"see replays"})
        print("added",sig)
json.dump(k,open('/verif/known_findings.json','w'),indent=1,ensure_ascii=False)
