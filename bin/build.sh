#!/bin/bash
# build.sh seq|tool : (re)build harness binaries against $VERIF_REPO's current working tree
set -euo pipefail
. "$(dirname "${BASH_SOURCE[0]}")/env.sh"
what="${1:-seq}"
case "$what" in
  tool)
    (cd "$VERIF_ROOT/tool" && $GO build -o "$VERIF_BUILD/vcheck" .)
    ;;
  seq)
    mf="$VERIF_BUILD/seq.mod"
    sed "s#@REPO@#$VERIF_REPO#" "$VERIF_ROOT/harness/go.mod.tmpl" > "$mf"
    cp "$VERIF_ROOT/harness/go.sum.base" "$VERIF_BUILD/seq.sum"
    (cd "$VERIF_ROOT/harness" && $GO build -modfile="$mf" -o "$VERIF_BUILD/seq" ./cmd/seq)
    ;;
esac
