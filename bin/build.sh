#!/bin/bash
# build.sh seq|tool : (re)build harness binaries against $VERIF_REPO's current working tree
set -euo pipefail
. "$(dirname "${BASH_SOURCE[0]}")/env.sh"
what="${1:-seq}"
case "$what" in
  tool)
    (cd "$VERIF_ROOT/tool" && $GO build -o "$VERIF_BUILD/vcheck" .)
    ;;
  seq)
    mf="$VERIF_BUILD/seq.mod"
    sed "s#@REPO@#$VERIF_REPO#" "$VERIF_ROOT/harness/go.mod.tmpl" > "$mf"
    cp "$VERIF_ROOT/harness/go.sum.base" "$VERIF_BUILD/seq.sum"
    (cd "$VERIF_ROOT/harness" && $GO build -modfile="$mf" -o "$VERIF_BUILD/seq" ./cmd/seq)
    ;;
  proc)
    mf="$VERIF_BUILD/seq.mod"
    sed "s#@REPO@#$VERIF_REPO#" "$VERIF_ROOT/harness/go.mod.tmpl" > "$mf"
    cp "$VERIF_ROOT/harness/go.sum.base" "$VERIF_BUILD/seq.sum"
    (cd "$VERIF_ROOT/harness" && $GO build -modfile="$mf" -o "$VERIF_BUILD/proc" ./cmd/proc)
    (cd "$VERIF_ROOT/harness" && $GO build -modfile="$mf" -o "$VERIF_BUILD/wasmdrv-default" ./cmd/wasmdrv)
    (cd "$VERIF_ROOT/harness" && $GO build -modfile="$mf" -tags tinywasm -o "$VERIF_BUILD/wasmdrv-tinywasm" ./cmd/wasmdrv)
    (cd "$VERIF_REPO" && $GO build -o "$VERIF_BUILD/gtree-cli" ./cmd/gtree)
    ;;
  racerun)
    mf="$VERIF_BUILD/seq.mod"
    sed "s#@REPO@#$VERIF_REPO#" "$VERIF_ROOT/harness/go.mod.tmpl" > "$mf"
    cp "$VERIF_ROOT/harness/go.sum.base" "$VERIF_BUILD/seq.sum"
    (cd "$VERIF_ROOT/harness" && CGO_ENABLED=1 $GO build -race -modfile="$mf" -o "$VERIF_BUILD/racerun" ./cmd/racerun)
    ;;
  mcgen)
    (cd "$VERIF_ROOT/mcgen" && $GO build -o "$VERIF_BUILD/mcgen" .)
    ;;
  mcx)
    # scratch copy of the working tree, rewritten onto the controlled runtime
    [ -x "$VERIF_BUILD/mcgen" ] && [ "$VERIF_BUILD/mcgen" -nt "$VERIF_ROOT/mcgen/main.go" ] || "$0" mcgen
    work="${VERIF_SCRATCH:-$VERIF_SCRATCH_BASE/verif-mcx-$$}/mcrepo"
    rm -rf "$work"; mkdir -p "$work/markdown" "$work/verifmc"
    cp "$VERIF_REPO/go.mod" "$VERIF_REPO/go.sum" "$work/"
    for f in "$VERIF_REPO"/*.go; do case "$f" in *_test.go) ;; *) cp "$f" "$work/";; esac; done
    for f in "$VERIF_REPO"/markdown/*.go; do case "$f" in *_test.go) ;; *) cp "$f" "$work/markdown/";; esac; done
    cp -r "$VERIF_ROOT/mc/." "$work/verifmc/"
    echo 'package mc
func init() { Sites = nil }' > "$work/verifmc/sites.go"
    (cd "$work" && "$VERIF_BUILD/mcgen" "$work" ${VERIF_MEM:-mem}) >&2
    mf="$VERIF_BUILD/mcx-$$.mod"
    sed "s#@REPO@#$work#" "$VERIF_ROOT/harness/go.mod.tmpl" > "$mf"
    cp "$VERIF_ROOT/harness/go.sum.base" "${mf%.mod}.sum"
    (cd "$VERIF_ROOT/harness" && $GO build -modfile="$mf" -tags mcbuild -o "$VERIF_BUILD/mcx" ./cmd/mcx); rc=$?
    rm -f "$mf" "${mf%.mod}.sum"
    [ -n "${VERIF_KEEP_MCREPO:-}" ] || { rm -rf "$work"; [ -n "${VERIF_SCRATCH:-}" ] || rmdir "$(dirname "$work")" 2>/dev/null; }
    exit $rc
    ;;
esac
