#!/usr/bin/env python3
"""Prints the table of DESIGN.md §10.2 from the evidence files of the last run (one row per property)."""
import json, os, sys

root = os.path.dirname(os.path.dirname(os.path.abspath(__file__)))


def num(n):
    if n >= 10_000_000:
        return "%.0f M" % (n / 1e6)
    if n >= 1_000_000:
        return "%.1f M" % (n / 1e6)
    if n >= 10_000:
        return "%.0f k" % (n / 1e3)
    if n >= 1_000:
        return "%.1f k" % (n / 1e3)
    return str(n)


print("| id | tier | parts (evaluations each) | states | transitions | non-trivial | exhaustive | wall |")
print("|----|------|--------------------------|--------|-------------|-------------|------------|------|")
for f in sorted(os.listdir(os.path.join(root, "evidence"))):
    if not f.endswith(".json"):
        continue
    e = json.load(open(os.path.join(root, "evidence", f)))
    c = e["coverage"]
    parts = ", ".join("%s %s" % (k, num(v.get("evaluations", 0))) for k, v in sorted(c.get("parts", {}).items()))
    print("| %s | %s | %s | %s | %s | %s | %s | %d s |" % (
        e["property_id"], e.get("tier", "?"), parts, num(c.get("states", 0)), num(c.get("transitions", 0)),
        num(c.get("distinct_nontrivial", 0)), "yes" if c.get("exhaustive") else "no (internal deadline)", round(e.get("wall_s", 0))))
