#!/usr/bin/env python3
"""Prints, per property, every seeded change and the checks that catch it (from seeded/*/meta.json)."""
import json, os, re
root = os.path.dirname(os.path.dirname(os.path.abspath(__file__)))
by = {}
for d in os.listdir(os.path.join(root, "seeded")):
    m = json.load(open(os.path.join(root, "seeded", d, "meta.json")))
    p, k = d.split("-")
    by.setdefault(p, []).append((int(k), ",".join(m["expected_caught_by"]), m.get("round", "")))
n = 0
for p in sorted(by):
    items = sorted(by[p])
    n += len(items)
    print("* **%s** (%d): " % (p, len(items)) + " · ".join("-%d %s" % (k, c) for k, c, _ in items))
print("\n%d seeded changes in all." % n)
