#!/bin/bash
# dev helper: bin/seed-run.sh <CNN> <N> <checks...> : validate a seeded change and run checks against it
id="$1"; n="$2"; shift 2
res="/tmp/seed/results/r10-$id-$n.txt"
{
  echo "##### $id change $n"; jq -r '.mechanism' /tmp/seed/out10-$id/meta$n.json 2>/dev/null | cut -c1-400
  /verif/bin/seed-validate.sh /tmp/seed/out10-$id $n 2>&1 | tail -12
  echo "----- checks"
  /verif/bin/try-mutant.sh /tmp/seed/out10-$id/patch$n.diff "$@" 2>&1
} > "$res" 2>&1
echo "done $id-$n"
