#!/usr/bin/env python3
"""Keeps the counts quoted in manifest_meta.json in step with the evidence of the last run (number of MC drivers,
CLI invocations, two-build cases) and makes sure every text points to the rule text for the families added later."""
import json, os, re
root = os.path.dirname(os.path.dirname(os.path.abspath(__file__)))
mp = os.path.join(root, "manifest_meta.json")
m = json.load(open(mp))
def ev(i):
    return json.load(open(os.path.join(root, "evidence", i + ".json")))["coverage"]
def scen(i):
    return int(ev(i)["indicators"].get("mc.scenarios", 0))
pointer = " Families added in later rounds (size sweep, name families, fault kinds, long histories ...) are listed in coverage.rule of the evidence file and in DESIGN.md §10.5-10.6k; each is enumerated exhaustively within its stated bound."
subs = {
    "C10": [(r"for \d+ drivers", lambda: "for %d drivers" % scen("C10"))],
    "C11": [(r"For \d+ drivers", lambda: "For %d drivers" % scen("C11"))],
    "C02": [(r"on \d+ drivers", lambda: "on %d drivers" % scen("C02"))],
    "C07": [(r"Massive mode: \d+ drivers", lambda: "Massive mode: %d drivers" % scen("C07"))],
    "C09": [(r"Massive mode: \d+ dry-run drivers", lambda: "Massive mode: %d dry-run drivers" % scen("C09"))],
    "C13": [(r"\d+ two-thread scenarios", lambda: "%d multi-thread scenarios" % scen("C13"))],
    "C14": [(r"massive mode: \d+ fault drivers", lambda: "massive mode: %d fault drivers" % scen("C14"))],
    "C16": [(r"^\d+ invocations", lambda: "%d invocations" % ev("C16")["evaluations"])],
    "C17": [(r"About [0-9.]+ M \([0-9.]+ M\)", lambda: "About %.1f M (quick tier; thorough: about 80 M)" % (ev("C17")["evaluations"] / 1e6))],
    "C06": [(r"Fault model: one failing call per run\.", lambda: "Fault model: one failing call per run (EIO and six other kinds), or every call failing from the k-th on.")],
}
for i, c in m["checks"].items():
    for pat, f in subs.get(i, []):
        try:
            rep = f()
        except Exception:
            continue
        c["text"] = re.sub(pat, rep, c["text"], count=1)
        c["note"] = re.sub(pat, rep, c["note"], count=1)
    if "coverage.rule of the evidence file" not in c["text"]:
        c["text"] += pointer
json.dump(m, open(mp, "w"), indent=1, ensure_ascii=False)
