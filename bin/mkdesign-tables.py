#!/usr/bin/env python3
"""Rewrites the generated parts of DESIGN.md (between <!-- X-begin --> and <!-- X-end --> markers): the table of §10.2 from
evidence/*.json (bin/mktable.py) and the list of seeded changes of §10.6j from seeded/*/meta.json (bin/mkcatch.py)."""
import os, re, subprocess
root = os.path.dirname(os.path.dirname(os.path.abspath(__file__)))
p = os.path.join(root, "DESIGN.md")
s = open(p).read()
for name, cmd in (("evidence-table", "mktable.py"), ("catch-table", "mkcatch.py")):
    out = subprocess.run([os.path.join(root, "bin", cmd)], capture_output=True, text=True, check=True).stdout
    b, e = "<!-- %s-begin -->" % name, "<!-- %s-end -->" % name
    assert b in s and e in s, name
    s = s[: s.index(b) + len(b)] + "\n" + out + s[s.index(e):]
open(p, "w").write(s)
