#!/bin/bash
# dev helper: bin/try-mutant.sh <patch.diff> <check ids...>
# applies the patch to a scratch copy of /repo (outside /repo and /verif), runs the given checks (quick) against
# that copy with a private build directory, prints verdict lines, removes everything.
set -uo pipefail
patch="$(readlink -f "$1")"; shift
tag="$(basename "$(dirname "$patch")")-$(basename "$patch" .diff)-$$"
work="/dev/shm/mut-$tag"
rm -rf "$work"; mkdir -p "$work"

mkdir -p "$work/repo"; git -C /repo archive HEAD | tar -x -C "$work/repo"
( cd "$work/repo" && git init -q . >/dev/null 2>&1 && git apply --whitespace=nowarn "$patch" ) || { echo "PATCH-DOES-NOT-APPLY $patch"; rm -rf "$work"; exit 2; }
export VERIF_REPO="$work/repo" VERIF_BUILD="$work/build" VERIF_ROOT_OVERRIDE=1
mkdir -p "$VERIF_BUILD"
for id in "$@"; do
  out="$work/out-$id.txt"
  tier="${TIER:-quick}"
  # evidence/replays of mutant runs must not overwrite the real ones: run vcheck with a private root overlay
  /verif/bin/check-mut "$id" "$tier" > "$out" 2>&1; rc=$?
  echo "== $id exit=$rc $(grep -E "^$id $tier" "$out" | sed 's/.*nontrivial/nontrivial/')"
  grep -E "VIOLATION|BUILD-FAILED|HARNESS-FAILED|NONDETERMINISTIC|DIVERGENCE" "$out" | head -5
  grep -E "^  signature" "$out" | head -8 | cut -c1-220
done
rm -rf "$work"
