# sourced by every script: offline Go environment that can build /repo (go.mod says go 1.24)
export GOFLAGS=-mod=mod GOPROXY=off GONOSUMDB='*' GONOSUMCHECK=1 GOFLAGS=-mod=mod CGO_ENABLED=0
unset GOSUMDB GOWORK
VERIF_ROOT="$(cd "$(dirname "${BASH_SOURCE[0]}")/.." && pwd)"
export VERIF_ROOT
export VERIF_REPO="${VERIF_REPO:-/repo}"
_tc="$(ls -d /root/go/pkg/mod/golang.org/toolchain@v0.0.1-go1.24.0.linux-amd64 2>/dev/null | head -1)"
if [ -n "$_tc" ] && [ -x "$_tc/bin/go" ]; then
  export GO="$_tc/bin/go" GOTOOLCHAIN=local GOROOT="$_tc"
  export PATH="$_tc/bin:$PATH"
else
  export GO="$(command -v go)" GOTOOLCHAIN=auto
fi
export GOWORK=off
export VERIF_BUILD="${VERIF_BUILD:-$VERIF_ROOT/.build}"
mkdir -p "$VERIF_BUILD"
if [ -d /dev/shm ] && [ -w /dev/shm ]; then export VERIF_SCRATCH_BASE="${VERIF_SCRATCH_BASE:-/dev/shm}"; else export VERIF_SCRATCH_BASE="${VERIF_SCRATCH_BASE:-$VERIF_BUILD}"; fi
