#!/usr/bin/env python3
# regenerates MANIFEST.json from checks.json + manifest_meta.json
import json
root='/verif'
checks=json.load(open(root+'/checks.json'))
meta=json.load(open(root+'/manifest_meta.json'))
props=[json.loads(l) for l in open(root+'/properties.jsonl')]
claimed={c['id'] for c in checks}
out={
 "version":1,
 "setup_cmd":"bin/setup.sh",
 "hooks":{
  "guard":"verif-mcgen (no build tag inside /repo: the MC engine rewrites a scratch COPY of the working tree with mcgen; /repo carries no hook code)",
  "enable":"bin/build.sh mcx copies $VERIF_REPO's non-test sources to a scratch dir, rewrites channel/select/go/sync/context/errgroup/os uses onto the controlled runtime (verif/mc) and builds harness/cmd/mcx against that copy; SEQ/PROC checks build the unmodified tree",
  "baseline_off_cmd":"cd /repo && GOFLAGS=-mod=mod go test -vet=off -count=1 -run 'TestParser|Test_IsSymbol|Test_Markdown|TestGenerate|TestNode_|TestStack_' . ./markdown",
  "source_commits":meta.get("hook_commits",[]),
  "add_only":True
 },
 "engines":meta["engines"],
 "checks":[],
 "notes":meta["notes"],
 "not_applicable":[]
}
for p in props:
    i=p['id']
    if i in claimed:
        m=meta["checks"][i]
        c={"property_id":i,
           "quick_cmd":"bin/check %s quick"%i,
           "thorough_cmd":"bin/check %s thorough"%i,
           "evidence_file":"/verif/evidence/%s.json"%i,
           "replay_cmd_template":"bin/check replay {path}",
           "engine":m["engine"],
           "level_claimed":{"category":next(c for c in checks if c['id']==i)['level'],"text":m["text"],"design_ref":m["design_ref"]},
           "level_note":m["note"],
           "technique":m["technique"]}
        out["checks"].append(c)
    else:
        out["not_applicable"].append({"property_id":i,"reason":meta.get("na",{}).get(i,"check not built yet in this commit (work in progress; see DESIGN.md §0 for the planned model-checking approach)")})
json.dump(out,open(root+'/MANIFEST.json','w'),indent=1,ensure_ascii=False)
print("claimed",len(out["checks"]),"na",len(out["not_applicable"]))
