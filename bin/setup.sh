#!/bin/bash
# builds the framework from files on disk only (offline) and warms the build cache
set -euo pipefail
cd "$(dirname "${BASH_SOURCE[0]}")/.."
. bin/env.sh
bin/build.sh tool
bin/build.sh seq
for b in mcgen mcx proc racerun; do
  if grep -q "^  $b)" bin/build.sh; then bin/build.sh $b; fi
done
"$VERIF_BUILD/mcx" -selftest
echo setup ok
