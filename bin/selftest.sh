#!/bin/bash
# bin/selftest.sh [ids...] : applies every seeded change under seeded/ to a scratch copy of /repo (never /repo itself),
# runs the checks listed in its meta.json ("expected_caught_by") at quick tier and reports whether each raised a VIOLATION.
# Exit 0 iff every seeded change was caught by every check listed for it.
set -uo pipefail
cd "$(dirname "${BASH_SOURCE[0]}")/.."
ids=("$@"); [ ${#ids[@]} -eq 0 ] && ids=($(ls seeded))
fail=0
for id in "${ids[@]}"; do
  d="seeded/$id"; [ -f "$d/patch.diff" ] || continue
  checks=$(jq -r '.expected_caught_by | join(" ")' "$d/meta.json")
  if [ -n "${ONLY:-}" ]; then # ONLY="C01 C03": restrict to these checks (re-runs after a change to some checks)
    keep=""; for c in $checks; do case " $ONLY " in *" $c "*) keep="$keep $c";; esac; done
    checks="$keep"; [ -z "$checks" ] && continue
  fi
  out=$(bin/try-mutant.sh "$d/patch.diff" $checks 2>&1)
  for c in $checks; do
    if grep -q "^== $c exit=1" <<<"$out"; then echo "CAUGHT  $id by $c: $(echo "$out" | grep -A3 "^== $c " | grep signature | head -1 | cut -c1-150)";
    else echo "MISSED  $id by $c ($(echo "$out" | grep "^== $c " | head -1))"; fail=1; fi
  done
done
exit $fail
