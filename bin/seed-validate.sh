#!/bin/bash
# dev helper: bin/seed-validate.sh <outdir> <N>  — confirms a seeded change independently:
# existing tests pass with it; the demo fails with it and passes without it. Uses a scratch copy outside /repo and /verif.
set -uo pipefail
. /verif/bin/env.sh
out="$(readlink -f "$1")"; n="$2"
work="/dev/shm/seedval-$(basename "$out")-$n-$$"
rm -rf "$work"; mkdir -p "$work"; git -C /repo archive HEAD | tar -x -C "$work"
cd "$work" && git init -q . >/dev/null 2>&1 && git add -A >/dev/null 2>&1 && git -c user.email=x@x -c user.name=x commit -qm base >/dev/null 2>&1
demo=$(ls "$out"/demo${n}_test.go "$out"/demo${n}* 2>/dev/null | head -1)
cmd=$(jq -r '.demo_cmd // ""' "$out/meta$n.json" 2>/dev/null)
echo "demo file: $demo"; echo "demo cmd : $cmd"
run_demo() {
  case "$demo" in
    *_test.go) cp "$demo" "$work/"; name=$(grep -oE 'func (Test[A-Za-z0-9_]+)' "$demo" | head -1 | awk '{print $2}');
       ( cd "$work" && timeout 300 $GO test -vet=off -count=1 -run "$(grep -oE 'func (Test[A-Za-z0-9_]+)' "$demo" | awk '{print $2}' | paste -sd'|')" . 2>&1 | tail -4 ); r=${PIPESTATUS[0]}; rm -f "$work/$(basename "$demo")";;
    *) echo "(non-test demo: run manually)";;
  esac
}
echo "--- demo WITHOUT the patch (must pass)"; run_demo
git apply --whitespace=nowarn "$out/patch$n.diff" || { echo "PATCH DOES NOT APPLY"; rm -rf "$work"; exit 2; }
echo "--- existing tests WITH the patch (must pass)"
( $GO build . && $GO build -tags tinywasm . && $GO build -o /dev/null ./cmd/gtree && $GO test -vet=off -count=1 . ./markdown 2>&1 | tail -3 )
git clean -fdqx . >/dev/null 2>&1
echo "--- demo WITH the patch (must fail)"; run_demo
cd /; rm -rf "$work"
