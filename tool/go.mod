module veriftool

go 1.24
