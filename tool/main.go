// vcheck: orchestrates one property check: builds the harness binaries against
// the current working tree of $VERIF_REPO, runs the shards in parallel, merges
// their results, matches violations against known_findings.json, writes
// evidence/<id>.json and replay files, prints VIOLATION / KNOWN-FINDING lines.
package main

import (
	"context"
	"encoding/json"
	"fmt"
	"os"
	"os/exec"
	"path/filepath"
	"sort"
	"strconv"
	"strings"
	"sync"
	"time"
)

type Part struct {
	Name     string         `json:"name"`
	Bin      string         `json:"bin"`  // seq | mcx | proc
	Args     []string       `json:"args"` // extra args
	Shards   int            `json:"shards"`
	Tiers    []string       `json:"tiers"`    // empty = both
	Deadline map[string]int `json:"deadline"` // per tier seconds (internal deadline, exits 0 non-exhaustive)
	// Supplementary parts (e.g. a free-running -race pass) can add violations but never count towards coverage
	// or the exhaustive flag: their silence proves nothing
	Supplementary bool `json:"supplementary"`
}

type Check struct {
	ID          string   `json:"id"`
	Level       string   `json:"level"`
	Rule        string   `json:"rule"`
	Assumptions []string `json:"assumptions"`
	Parts       []Part   `json:"parts"`
}

type Example struct {
	Detail string          `json:"detail"`
	Replay json.RawMessage `json:"replay"`
	Size   int             `json:"size"`
}

type Result struct {
	Property    string               `json:"property"`
	Part        string               `json:"part"`
	Evaluations int64                `json:"evaluations"`
	States      int64                `json:"states"`
	Transitions int64                `json:"transitions"`
	Traces      int64                `json:"traces"`
	Nontrivial  int64                `json:"nontrivial"`
	Exhaustive  bool                 `json:"exhaustive"`
	Capped      string               `json:"capped"`
	Samples     []json.RawMessage    `json:"samples"`
	ViolCount   map[string]int64     `json:"viol_count"`
	ViolEx      map[string][]Example `json:"viol_examples"`
	Extra       map[string]int64     `json:"extra"`
	Bounds      map[string]string    `json:"bounds"`
	WallS       float64              `json:"wall_s"`
}

type Finding struct {
	Property  string `json:"property"`
	Signature string `json:"signature"`
	What      string `json:"what"`
	Witness   string `json:"witness"`
}

type Known struct {
	Findings []Finding `json:"findings"`
	Fixed    []string  `json:"fixed"`
}

func die(code int, f string, a ...any) {
	fmt.Fprintf(os.Stderr, f+"\n", a...)
	os.Exit(code)
}

func main() {
	if len(os.Args) < 4 || os.Args[1] != "run" {
		die(3, "usage: vcheck run <ID> <quick|thorough>")
	}
	id, tier := os.Args[2], os.Args[3]
	if t := os.Getenv("VERIF_TIER"); t == "quick" || t == "thorough" {
		_ = t // the tier on the command line wins: each registered command names its tier
	}
	root := os.Getenv("VERIF_ROOT")
	build := os.Getenv("VERIF_BUILD")
	outRoot := root // evidence/ and replays/ live here; mutant runs (dev helper) redirect them
	if o := os.Getenv("VERIF_OUT_ROOT"); o != "" {
		outRoot = o
	}
	seed, _ := strconv.ParseInt(os.Getenv("VERIF_SEED"), 10, 64)
	start := time.Now()

	var checks []Check
	b, err := os.ReadFile(filepath.Join(root, "checks.json"))
	if err != nil {
		die(3, "%v", err)
	}
	if err := json.Unmarshal(b, &checks); err != nil {
		die(3, "checks.json: %v", err)
	}
	var ck *Check
	for i := range checks {
		if checks[i].ID == id {
			ck = &checks[i]
		}
	}
	if ck == nil {
		die(3, "no such check %s", id)
	}
	var known Known
	if b, err := os.ReadFile(filepath.Join(root, "known_findings.json")); err == nil {
		if err := json.Unmarshal(b, &known); err != nil {
			die(3, "known_findings.json: %v", err)
		}
	}

	// build the binaries this check needs (always from the current working tree)
	bins := map[string]bool{}
	var parts []Part
	for _, p := range ck.Parts {
		ok := len(p.Tiers) == 0
		for _, t := range p.Tiers {
			if t == tier {
				ok = true
			}
		}
		if ok {
			parts = append(parts, p)
			bins[p.Bin] = true
		}
	}
	scratch, err := os.MkdirTemp(os.Getenv("VERIF_SCRATCH_BASE"), "verif-"+id+"-")
	if err != nil {
		die(3, "%v", err)
	}
	defer os.RemoveAll(scratch)
	os.Setenv("VERIF_SCRATCH", scratch)
	var binNames []string
	for bn := range bins {
		binNames = append(binNames, bn)
	}
	sort.Strings(binNames)
	for _, bn := range binNames {
		cmd := exec.Command(filepath.Join(root, "bin", "build.sh"), bn)
		cmd.Stdout, cmd.Stderr = os.Stderr, os.Stderr
		if err := cmd.Run(); err != nil {
			os.RemoveAll(scratch)
			die(3, "BUILD-FAILED %s: %v (the machinery could not be built against the current tree; no verdict)", bn, err)
		}
	}

	// run all shards of all parts, at most NCPU at a time
	type job struct {
		part  Part
		shard int
		out   string
	}
	var jobs []job
	for _, p := range parts {
		n := p.Shards
		if n <= 0 {
			n = 1
		}
		for s := 0; s < n; s++ {
			jobs = append(jobs, job{p, s, filepath.Join(scratch, fmt.Sprintf("res-%s-%d.json", p.Name, s))})
		}
	}
	ncpu := 16
	if v, err := strconv.Atoi(os.Getenv("VERIF_JOBS")); err == nil && v > 0 {
		ncpu = v
	}
	sem := make(chan struct{}, ncpu)
	var wg sync.WaitGroup
	var mu sync.Mutex
	var failures []string
	crashed := map[string]string{}
	for _, j := range jobs {
		wg.Add(1)
		sem <- struct{}{}
		go func(j job) {
			defer wg.Done()
			defer func() { <-sem }()
			n := j.part.Shards
			if n <= 0 {
				n = 1
			}
			args := []string{"-prop", id, "-tier", tier, "-shard", strconv.Itoa(j.shard), "-nshards", strconv.Itoa(n), "-out", j.out, "-seed", strconv.FormatInt(seed, 10)}
			if d := j.part.Deadline[tier]; d > 0 {
				args = append(args, "-deadline", strconv.Itoa(d))
			}
			args = append(args, j.part.Args...)
			// hard limit per shard: internal deadline (if any) plus a generous margin; a shard that is still running
			// then is killed and the whole check ends with "no verdict" (exit 3) instead of hanging
			limit := 1800 * time.Second
			if d := j.part.Deadline[tier]; d > 0 {
				limit = time.Duration(d)*time.Second + 600*time.Second
			}
			ctx, cancel := context.WithTimeout(context.Background(), limit)
			defer cancel()
			cmd := exec.CommandContext(ctx, filepath.Join(build, j.part.Bin), args...)
			cmd.Env = append(os.Environ(), "GOMAXPROCS=2")
			// every shard works in a directory of its own below the scratch directory: a tree under test that writes
			// relative to the working directory cannot touch /verif or /repo
			wd := filepath.Join(scratch, fmt.Sprintf("wd-%s-%d", j.part.Name, j.shard))
			os.MkdirAll(wd, 0o755)
			cmd.Dir = wd
			outb, err := cmd.CombinedOutput()
			if ctx.Err() != nil {
				err = fmt.Errorf("killed after %s (hard limit): %v", limit, err)
			}
			if err != nil {
				mu.Lock()
				if excerpt, ok := libraryCrash(string(outb)); ok && j.part.Bin == "seq" && ctx.Err() == nil {
					// the process died from a panic / fatal error raised in the library itself (a goroutine it started, or
					// the runtime on its behalf): the call under test never returned, which no statement allows
					crashed[j.out] = fmt.Sprintf("%s shard %d (%s %s): %v\n%s", j.part.Name, j.shard, j.part.Bin, strings.Join(args, " "), err, excerpt)
				} else {
					failures = append(failures, fmt.Sprintf("%s shard %d: %v\n%s", j.part.Name, j.shard, err, lastN(string(outb), 3000)))
				}
				mu.Unlock()
			}
		}(j)
	}
	wg.Wait()
	if len(failures) > 0 {
		os.RemoveAll(scratch)
		die(3, "HARNESS-FAILED (no verdict):\n%s", strings.Join(failures, "\n"))
	}

	// merge
	tot := Result{Exhaustive: true, ViolCount: map[string]int64{}, ViolEx: map[string][]Example{}, Extra: map[string]int64{}, Bounds: map[string]string{}}
	perPart := map[string]map[string]any{}
	supp := map[string]int64{}
	partSamples := map[string]int{}
	var capped []string
	for _, j := range jobs {
		if ex, ok := crashed[j.out]; ok {
			sig := id + "|library-crashed-the-process|" + j.part.Name
			tot.ViolCount[sig]++
			rb, _ := json.Marshal(map[string]string{"kind": "crash", "rerun": ex})
			tot.ViolEx[sig] = append(tot.ViolEx[sig], Example{Detail: ex, Replay: rb})
			tot.Exhaustive = false
			capped = append(capped, fmt.Sprintf("%s/%d: shard ended by a crash inside the library", j.part.Name, j.shard))
			continue
		}
		b, err := os.ReadFile(j.out)
		if err != nil {
			os.RemoveAll(scratch)
			die(3, "missing shard result %s", j.out)
		}
		var r Result
		if err := json.Unmarshal(b, &r); err != nil {
			os.RemoveAll(scratch)
			die(3, "bad shard result %s: %v", j.out, err)
		}
		if j.part.Supplementary {
			supp[j.part.Name] += r.Evaluations
			for k, v := range r.ViolCount {
				tot.ViolCount[k] += v
			}
			for k, v := range r.ViolEx {
				tot.ViolEx[k] = append(tot.ViolEx[k], v...)
			}
			continue
		}
		tot.Evaluations += r.Evaluations
		tot.States += r.States
		tot.Transitions += r.Transitions
		tot.Traces += r.Traces
		tot.Nontrivial += r.Nontrivial
		if !r.Exhaustive {
			tot.Exhaustive = false
			capped = append(capped, fmt.Sprintf("%s/%d: %s", j.part.Name, j.shard, r.Capped))
		}
		for _, s := range r.Samples {
			if partSamples[j.part.Name] < 3 {
				partSamples[j.part.Name]++
				tot.Samples = append(tot.Samples, s)
			}
		}
		for k, v := range r.ViolCount {
			tot.ViolCount[k] += v
		}
		for k, v := range r.ViolEx {
			ex := append(tot.ViolEx[k], v...)
			sort.SliceStable(ex, func(a, b int) bool { return ex[a].Size < ex[b].Size })
			if len(ex) > 3 {
				ex = ex[:3]
			}
			tot.ViolEx[k] = ex
		}
		for k, v := range r.Extra {
			if strings.HasPrefix(k, "max_") {
				if v > tot.Extra[j.part.Name+"."+k] {
					tot.Extra[j.part.Name+"."+k] = v
				}
				continue
			}
			tot.Extra[j.part.Name+"."+k] += v
		}
		for k, v := range r.Bounds {
			tot.Bounds[j.part.Name+"."+k] = v
		}
		pp := perPart[j.part.Name]
		if pp == nil {
			pp = map[string]any{"evaluations": int64(0), "states": int64(0), "transitions": int64(0), "wall_s_max": 0.0}
			perPart[j.part.Name] = pp
		}
		pp["evaluations"] = pp["evaluations"].(int64) + r.Evaluations
		pp["states"] = pp["states"].(int64) + r.States
		pp["transitions"] = pp["transitions"].(int64) + r.Transitions
		if r.WallS > pp["wall_s_max"].(float64) {
			pp["wall_s_max"] = r.WallS
		}
	}

	// classify
	knownSig := map[string]Finding{}
	for _, f := range known.Findings {
		if f.Property == id {
			knownSig[f.Signature] = f
		}
	}
	var sigs []string
	for s := range tot.ViolCount {
		sigs = append(sigs, s)
	}
	sort.Strings(sigs)
	os.MkdirAll(filepath.Join(outRoot, "replays"), 0o755)
	newViol := 0
	var knownSeen []string
	var lines []string
	for _, s := range sigs {
		if f, ok := knownSig[s]; ok {
			knownSeen = append(knownSeen, s)
			lines = append(lines, fmt.Sprintf("KNOWN-FINDING: property=%s %s — %s (%d cases this run)", id, s, f.What, tot.ViolCount[s]))
			continue
		}
		newViol++
		ex := tot.ViolEx[s]
		path := filepath.Join(outRoot, "replays", fmt.Sprintf("%s-%s.json", id, sanitize(s)))
		var e Example
		if len(ex) > 0 {
			e = ex[0]
		}
		rb, _ := json.MarshalIndent(map[string]any{"property": id, "signature": s, "count": tot.ViolCount[s], "detail": e.Detail, "replay": e.Replay, "tier": tier}, "", " ")
		os.WriteFile(path, rb, 0o644)
		lines = append(lines, fmt.Sprintf("VIOLATION property=%s replay=%s", id, path))
		lines = append(lines, fmt.Sprintf("  signature: %s (%d cases)\n  %s", s, tot.ViolCount[s], indent(tail(e.Detail, 1500))))
	}

	// evidence
	samples := tot.Samples
	if len(samples) == 0 {
		samples = []json.RawMessage{json.RawMessage(`"(no sample recorded)"`)}
	}
	cov := map[string]any{
		"evaluations":                   tot.Evaluations,
		"distinct_nontrivial":           tot.Nontrivial,
		"rule":                          ck.Rule,
		"samples":                       samples,
		"states":                        tot.States,
		"transitions":                   tot.Transitions,
		"traces_validated_against_impl": tot.Traces,
		"exhaustive":                    tot.Exhaustive,
		"bounds":                        tot.Bounds,
		"indicators":                    tot.Extra,
		"parts":                         perPart,
		"known_findings_observed":       knownSeen,
		"violation_signatures":          tot.ViolCount,
	}
	if len(capped) > 0 {
		cov["capped"] = capped
	}
	if len(supp) > 0 {
		cov["supplementary_runs_not_counted_as_coverage"] = supp
	}
	ev := map[string]any{
		"property_id": id,
		"tier":        tier,
		"seed":        seed,
		"level":       ck.Level,
		"coverage":    cov,
		"assumptions": ck.Assumptions,
		"wall_s":      time.Since(start).Seconds(),
		"violations":  newViol,
	}
	eb, _ := json.MarshalIndent(ev, "", " ")
	os.MkdirAll(filepath.Join(outRoot, "evidence"), 0o755)
	if err := os.WriteFile(filepath.Join(outRoot, "evidence", id+".json"), append(eb, '\n'), 0o644); err != nil {
		os.RemoveAll(scratch)
		die(3, "%v", err)
	}
	fmt.Printf("%s %s: evaluations=%d states=%d transitions=%d traces=%d nontrivial=%d exhaustive=%v wall=%.1fs\n", id, tier, tot.Evaluations, tot.States, tot.Transitions, tot.Traces, tot.Nontrivial, tot.Exhaustive, time.Since(start).Seconds())
	var ks []string
	for k := range tot.Extra {
		ks = append(ks, k)
	}
	sort.Strings(ks)
	for _, k := range ks {
		fmt.Printf("  indicator %s = %d\n", k, tot.Extra[k])
	}
	for _, l := range lines {
		fmt.Println(l)
	}
	os.RemoveAll(scratch)
	if newViol > 0 {
		os.Exit(1)
	}
}

// libraryCrash tells whether a process output ends in a Go panic / fatal error whose first frame outside the runtime
// and the standard library belongs to the library under test (not to the harness), and returns the crash text.
func libraryCrash(out string) (string, bool) {
	i := strings.Index(out, "\npanic: ")
	if k := strings.Index(out, "fatal error: "); k >= 0 && (i < 0 || k < i) {
		i = k
	}
	if i < 0 {
		if !strings.HasPrefix(out, "panic: ") {
			return "", false
		}
		i = 0
	}
	crash := out[i:]
	g := strings.Index(crash, "[running]:")
	if strings.HasPrefix(crash, "fatal error: all goroutines are asleep") {
		// a deadlock has no running goroutine: the main goroutine's stack says who waits for ever
		g = strings.Index(crash, "goroutine 1 [")
	}
	if g < 0 {
		return "", false
	}
	lines := strings.Split(crash[g:], "\n")[1:]
	for _, l := range lines {
		if l == "" {
			break // end of the crashing goroutine's stack
		}
		if strings.HasPrefix(l, "\t") || strings.HasPrefix(l, "panic(") || strings.HasPrefix(l, "created by ") {
			continue
		}
		// the first frame that belongs to the harness or to the library decides (runtime, standard library and
		// third-party frames above it are skipped: whoever called them is responsible)
		if strings.HasPrefix(l, "main.") || strings.HasPrefix(l, "verif") {
			return "", false
		}
		if strings.HasPrefix(l, "github.com/ddddddO/gtree.") || strings.HasPrefix(l, "github.com/ddddddO/gtree/markdown.") {
			return tail(crash, 3000), true
		}
	}
	return "", false
}

func sanitize(s string) string {
	var sb strings.Builder
	for _, r := range s {
		if (r >= 'a' && r <= 'z') || (r >= 'A' && r <= 'Z') || (r >= '0' && r <= '9') || r == '-' || r == '_' {
			sb.WriteRune(r)
		} else {
			sb.WriteByte('_')
		}
	}
	x := sb.String()
	if len(x) > 80 {
		x = x[:80]
	}
	return x
}

func tail(s string, n int) string {
	if len(s) > n {
		return s[:n] + "…"
	}
	return s
}

func lastN(s string, n int) string {
	if len(s) > n {
		return "…" + s[len(s)-n:]
	}
	return s
}

func indent(s string) string { return strings.ReplaceAll(s, "\n", "\n  ") }
