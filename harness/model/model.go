// Package model holds the reference models ("keep it boring"): plain trees,
// the sibling-merge rule, the drawing rule of C01, walk facts, and the mkdir
// plan. Nothing here shares code with gtree; everything is written from the
// property statements.
package model

import (
	"sort"
	"strconv"
	"strings"
)

// Node is a plain ordered tree node.
type Node struct {
	Name string
	Kids []*Node
}

// Forest is an ordered list of roots.
type Forest []*Node

func (n *Node) Clone() *Node {
	c := &Node{Name: n.Name}
	for _, k := range n.Kids {
		c.Kids = append(c.Kids, k.Clone())
	}
	return c
}

func (f Forest) Clone() Forest {
	var o Forest
	for _, r := range f {
		o = append(o, r.Clone())
	}
	return o
}

// Size is the number of nodes.
func (n *Node) Size() int {
	s := 1
	for _, k := range n.Kids {
		s += k.Size()
	}
	return s
}

func (f Forest) Size() int {
	s := 0
	for _, r := range f {
		s += r.Size()
	}
	return s
}

// MergeNode merges equally named siblings below n: the first occurrence keeps
// its place and receives the children of the later ones, recursively.
// Roots are never merged with each other (each root line starts a new tree).
func MergeNode(n *Node) *Node {
	out := &Node{Name: n.Name}
	idx := map[string]int{}
	for _, k := range n.Kids {
		if i, ok := idx[k.Name]; ok {
			out.Kids[i].Kids = append(out.Kids[i].Kids, k.Kids...)
			continue
		}
		idx[k.Name] = len(out.Kids)
		out.Kids = append(out.Kids, &Node{Name: k.Name, Kids: append([]*Node{}, k.Kids...)})
	}
	for i, k := range out.Kids {
		out.Kids[i] = MergeNode(k)
	}
	return out
}

func Merge(f Forest) Forest {
	var o Forest
	for _, r := range f {
		o = append(o, MergeNode(r))
	}
	return o
}

// Fmt4 are the four branch strings.
type Fmt4 struct {
	LastDirect, LastIndirect, MidDirect, MidIndirect string
	// Order says which branch-format options are passed and in which order ("" = "ml"): 'm' the intermedial-node
	// option with the Mid strings, 'l' the last-node option with the Last strings, 'y' / 'x' the same two options
	// with other strings ("Y"/"y", "X"/"x") that a later 'm' / 'l' must override. An option that is not passed
	// leaves the documented default of its pair.
	Order string `json:"order,omitempty"`
}

// Effective is the tuple the options of f.Order amount to (each option sets its own pair, the last one given wins).
func (f Fmt4) Effective() Fmt4 {
	if f.Order == "" {
		return Fmt4{f.LastDirect, f.LastIndirect, f.MidDirect, f.MidIndirect, ""}
	}
	e := DefaultFmt
	for _, o := range f.Order {
		switch o {
		case 'm':
			e.MidDirect, e.MidIndirect = f.MidDirect, f.MidIndirect
		case 'l':
			e.LastDirect, e.LastIndirect = f.LastDirect, f.LastIndirect
		case 'y':
			e.MidDirect, e.MidIndirect = "Y", "y"
		case 'x':
			e.LastDirect, e.LastIndirect = "X", "x"
		}
	}
	return e
}

var DefaultFmt = Fmt4{"└──", "    ", "├──", "│   ", ""}

// Row is one visited node with the facts C01/C05 talk about.
type Row struct {
	Name     string
	Branch   string // "" for a root
	Line     string // Name for a root, Branch+" "+Name otherwise
	Level    int    // roots are 1
	Path     string // names joined by '/'
	HasChild bool
}

// Rows lists the nodes of one (already merged) root in depth-first pre-order.
func Rows(root *Node, f Fmt4) []Row {
	f = f.Effective()
	var out []Row
	var rec func(n *Node, prefix string, level int, path string, isRoot, last bool)
	rec = func(n *Node, prefix string, level int, path string, isRoot, last bool) {
		r := Row{Name: n.Name, Level: level, HasChild: len(n.Kids) > 0}
		childPrefix := prefix
		if isRoot {
			r.Line = n.Name
			r.Path = n.Name
		} else {
			conn := f.MidDirect
			cont := f.MidIndirect
			if last {
				conn = f.LastDirect
				cont = f.LastIndirect
			}
			r.Branch = prefix + conn
			r.Line = r.Branch + " " + n.Name
			r.Path = path + "/" + n.Name
			childPrefix = prefix + cont
		}
		out = append(out, r)
		for i, k := range n.Kids {
			rec(k, childPrefix, level+1, r.Path, false, i == len(n.Kids)-1)
		}
	}
	rec(root, "", 1, "", true, false)
	return out
}

// Render is the text output of a merged forest.
func Render(f Forest, fm Fmt4) string {
	var sb strings.Builder
	for _, r := range f {
		for _, row := range Rows(r, fm) {
			sb.WriteString(row.Line)
			sb.WriteByte('\n')
		}
	}
	return sb.String()
}

// RenderRoot is the block of one root.
func RenderRoot(r *Node, fm Fmt4) string { return Render(Forest{r}, fm) }

// IsFile is the mkdir rule: childless and the name ends with a configured extension.
func IsFile(n *Node, exts []string) bool {
	if len(n.Kids) > 0 {
		return false
	}
	for _, e := range exts {
		if strings.HasSuffix(n.Name, e) {
			return true
		}
	}
	return false
}

// Plan maps every node path (relative, '/'-joined) to its kind: 'd' or 'f'.
func Plan(f Forest, exts []string) map[string]byte {
	out := map[string]byte{}
	var rec func(n *Node, p string)
	rec = func(n *Node, p string) {
		if p == "" {
			p = n.Name
		} else {
			p = p + "/" + n.Name
		}
		if IsFile(n, exts) {
			out[p] = 'f'
		} else {
			out[p] = 'd'
		}
		for _, k := range n.Kids {
			rec(k, p)
		}
	}
	for _, r := range f {
		rec(r, "")
	}
	return out
}

// Counts returns (directories, files) of one root under the mkdir rule.
func Counts(r *Node, exts []string) (int, int) {
	d, fl := 0, 0
	var rec func(n *Node)
	rec = func(n *Node) {
		if IsFile(n, exts) {
			fl++
		} else {
			d++
		}
		for _, k := range n.Kids {
			rec(k)
		}
	}
	rec(r)
	return d, fl
}

// Paths lists all node paths of a merged root.
func Paths(r *Node) []string {
	var out []string
	for _, row := range Rows(r, DefaultFmt) {
		out = append(out, row.Path)
	}
	return out
}

// Names lists every node name of a forest (multiset, sorted).
func Names(f Forest) []string {
	var out []string
	var rec func(n *Node)
	rec = func(n *Node) {
		out = append(out, n.Name)
		for _, k := range n.Kids {
			rec(k)
		}
	}
	for _, r := range f {
		rec(r)
	}
	sort.Strings(out)
	return out
}

// Key is a canonical string of a forest (for state counting).
func Key(f Forest) string {
	var sb strings.Builder
	var rec func(n *Node)
	rec = func(n *Node) {
		sb.WriteString(strconv.Quote(n.Name))
		sb.WriteByte('(')
		for _, k := range n.Kids {
			rec(k)
		}
		sb.WriteByte(')')
	}
	for _, r := range f {
		rec(r)
		sb.WriteByte(';')
	}
	return sb.String()
}

// Equal compares two forests structurally.
func Equal(a, b Forest) bool { return Key(a) == Key(b) }

// NormSummary makes dry-run reports comparable independently of the wording of the count line: a line that follows
// a blank line and contains exactly two integers ("3 directories, 1 files") becomes "<3,1>". The statement fixes
// the counts and their order (directories, files), not the words around them.
func NormSummary(report string) string {
	lines := strings.Split(report, "\n")
	for i := 1; i < len(lines); i++ {
		if lines[i-1] != "" {
			continue
		}
		var nums []string
		cur := ""
		for _, r := range lines[i] + " " {
			if r >= '0' && r <= '9' {
				cur += string(r)
			} else if cur != "" {
				nums = append(nums, cur)
				cur = ""
			}
		}
		if len(nums) == 2 {
			lines[i] = "<" + nums[0] + "," + nums[1] + ">"
		}
	}
	return strings.Join(lines, "\n")
}
