package model

import "strings"

// Verdict of the Markdown dialect specification (written from the property statements,
// not from the parser).
type Verdict int

const (
	WellFormed Verdict = iota
	Malformed
	OutOfDomain // the statements do not settle this input; never judged
)

type Spec struct {
	Verdict Verdict
	Class   string // malformation class or the reason for OutOfDomain
	Line    string // offending line (Malformed)
	LineNo  int
	Forest  Forest // unmerged forest (WellFormed)
	Items   []string
}

// ParseSpec classifies a document.
//
//	blank / whitespace-only lines are ignored
//	a heading line "#..." is a root (text = rest without #'s, trimmed)
//	any other line is indentation (only spaces or only tabs) + bullet (- * +) + optional one space + non-empty text
//	the unit is the indentation of the first indented line; level = indent/unit + 1 (+1 when roots are headings)
//	malformed: no bullet, empty text, indentation not a multiple of the unit, tabs and spaces mixed in one
//	           indentation, more than one level deeper than the item before, item before the first root
//	           (the same holds for consecutive indented lines that use different characters)
//	out of domain: no root at all; heading roots mixed with bullet roots; indentation characters that differ
//	           between root blocks (separated by an unindented bullet line); a heading that is not at the start of its line
func ParseSpec(doc string) Spec {
	lines := strings.Split(doc, "\n")
	var (
		forest   Forest
		stack    []*Node
		unit     int
		indentCh byte
		runCh    byte // indentation character of the current run of indented lines (reset by an unindented bullet line)
		heading  = -1 // -1 unknown, 0 bullet roots, 1 heading roots
		prevLv   int
		items    []string
	)
	ood := func(why string) Spec { return Spec{Verdict: OutOfDomain, Class: why} }
	bad := func(class, line string, no int) Spec {
		return Spec{Verdict: Malformed, Class: class, Line: line, LineNo: no}
	}
	for no, raw := range lines {
		line := strings.TrimSuffix(raw, "\r")
		if strings.TrimSpace(line) == "" {
			continue
		}
		if strings.HasPrefix(line, "#") {
			if heading == 0 {
				return ood("heading root after bullet roots")
			}
			heading = 1
			text := strings.Trim(strings.TrimLeft(line, "#"), " ")
			if text == "" {
				return bad("empty-text", line, no)
			}
			n := &Node{Name: text}
			forest = append(forest, n)
			stack = []*Node{n}
			prevLv = 1
			items = append(items, text)
			continue
		}
		i := 0
		for i < len(line) && (line[i] == ' ' || line[i] == '\t') {
			i++
		}
		indent, rest := line[:i], line[i:]
		if rest == "" || !strings.ContainsAny(rest[:1], "-*+") {
			if strings.HasPrefix(rest, "#") {
				return ood("indented heading")
			}
			return bad("no-bullet", line, no)
		}
		if strings.Contains(indent, " ") && strings.Contains(indent, "\t") {
			return bad("mixed-indent", line, no)
		}
		text := strings.TrimPrefix(rest[1:], " ")
		if text == "" {
			return bad("empty-text", line, no)
		}
		if len(indent) == 0 {
			// the statement's "mixes tabs and spaces" is judged line by line and inside one run of indented
			// lines; whether documents may switch the character between root blocks is left open (out of domain)
			runCh = 0
		}
		if len(indent) > 0 {
			if runCh != 0 && runCh != indent[0] {
				return bad("mixed-indent-lines", line, no)
			}
			runCh = indent[0]
			if indentCh == 0 {
				indentCh = indent[0]
			} else if indentCh != indent[0] {
				return ood("indentation character changes between root blocks")
			}
			if unit == 0 {
				unit = len(indent)
			}
			if len(indent)%unit != 0 {
				return bad("bad-multiple", line, no)
			}
		}
		lv := 1
		if unit > 0 {
			lv = len(indent)/unit + 1
		}
		if lv == 1 && heading == -1 {
			heading = 0
		}
		if heading == 1 {
			lv++
		}
		if lv == 1 {
			n := &Node{Name: text}
			forest = append(forest, n)
			stack = []*Node{n}
			prevLv = 1
			items = append(items, text)
			continue
		}
		if len(forest) == 0 {
			return bad("before-first-root", line, no)
		}
		if lv > prevLv+1 {
			return bad("level-jump", line, no)
		}
		n := &Node{Name: text}
		p := stack[lv-2]
		p.Kids = append(p.Kids, n)
		stack = append(stack[:lv-1], n)
		prevLv = lv
		items = append(items, text)
	}
	if len(forest) == 0 {
		return ood("no root")
	}
	return Spec{Verdict: WellFormed, Forest: forest, Items: items}
}
