// Package fsx: jail directories and recursive snapshots for the file-system checks.
package fsx

import (
	"fmt"
	"io/fs"
	"os"
	"path/filepath"
	"sort"
	"strings"
)

// Base returns the scratch base directory (tmpfs when available).
func Base() string {
	if b := os.Getenv("VERIF_SCRATCH"); b != "" {
		return b
	}
	if st, err := os.Stat("/dev/shm"); err == nil && st.IsDir() {
		return "/dev/shm"
	}
	return os.TempDir()
}

// Jail is a fresh directory <base>/jail-N/ with target p/q/target inside and sentinel siblings.
type Jail struct {
	Root   string
	Target string
}

var jailSeq int

func NewJail(tag string) *Jail {
	jailSeq++
	// one parent directory per process: concurrent shards do not contend on a shared directory lock
	root := filepath.Join(Base(), fmt.Sprintf("proc-%d", os.Getpid()), fmt.Sprintf("jail-%s-%d", tag, jailSeq))
	os.RemoveAll(root)
	j := &Jail{Root: root, Target: filepath.Join(root, "p", "q", "target")}
	must(os.MkdirAll(j.Target, 0o755))
	must(os.WriteFile(filepath.Join(root, "sentinel.txt"), []byte("s"), 0o644))
	must(os.WriteFile(filepath.Join(root, "p", "sentinel.txt"), []byte("s"), 0o644))
	must(os.MkdirAll(filepath.Join(root, "p", "q", "sibling"), 0o755))
	must(os.WriteFile(filepath.Join(root, "p", "q", "sibling", "keep"), []byte("k"), 0o644))
	return j
}

func must(err error) {
	if err != nil {
		panic(err)
	}
}

func (j *Jail) Remove() { os.RemoveAll(j.Root) }

// Snap maps every path below dir (relative, '/'-separated) to "d" or "f:<size>:<mode>".
type Snap map[string]string

func Snapshot(dir string) Snap {
	s := Snap{}
	filepath.WalkDir(dir, func(p string, d fs.DirEntry, err error) error {
		if err != nil {
			return nil
		}
		rel, _ := filepath.Rel(dir, p)
		if rel == "." {
			return nil
		}
		rel = filepath.ToSlash(rel)
		if d.IsDir() {
			s[rel] = "d"
		} else if d.Type()&fs.ModeSymlink != 0 {
			to, _ := os.Readlink(p)
			s[rel] = "l:" + to
		} else {
			info, e := d.Info()
			if e != nil {
				s[rel] = "?"
			} else {
				s[rel] = fmt.Sprintf("f:%d:%o", info.Size(), info.Mode().Perm())
			}
		}
		return nil
	})
	return s
}

// DirModes maps every directory below dir, and dir itself ("."), to its permission bits.
func DirModes(dir string) map[string]fs.FileMode {
	m := map[string]fs.FileMode{}
	filepath.WalkDir(dir, func(p string, d fs.DirEntry, err error) error {
		if err != nil || !d.IsDir() {
			return nil
		}
		if info, e := d.Info(); e == nil {
			rel, _ := filepath.Rel(dir, p)
			m[filepath.ToSlash(rel)] = info.Mode().Perm()
		}
		return nil
	})
	return m
}

func (s Snap) Equal(o Snap) bool {
	if len(s) != len(o) {
		return false
	}
	for k, v := range s {
		if o[k] != v {
			return false
		}
	}
	return true
}

// Diff describes the difference after - before.
func Diff(before, after Snap) string {
	var out []string
	for k, v := range after {
		if b, ok := before[k]; !ok {
			out = append(out, "+"+k+"("+v+")")
		} else if b != v {
			out = append(out, "~"+k+"("+b+"->"+v+")")
		}
	}
	for k := range before {
		if _, ok := after[k]; !ok {
			out = append(out, "-"+k)
		}
	}
	sort.Strings(out)
	return strings.Join(out, " ")
}

// Under returns the sub-snapshot below prefix (relative to it).
func (s Snap) Under(prefix string) Snap {
	o := Snap{}
	p := strings.TrimSuffix(prefix, "/") + "/"
	for k, v := range s {
		if strings.HasPrefix(k, p) {
			o[k[len(p):]] = v
		}
	}
	return o
}

// Outside returns the entries that are not below prefix and are not prefix itself.
func (s Snap) Outside(prefix string) Snap {
	o := Snap{}
	p := strings.TrimSuffix(prefix, "/")
	for k, v := range s {
		if k == p || strings.HasPrefix(k, p+"/") {
			continue
		}
		o[k] = v
	}
	return o
}

// Kinds reduces a snapshot to path -> 'd' / 'f'.
func (s Snap) Kinds() map[string]byte {
	o := map[string]byte{}
	for k, v := range s {
		o[k] = v[0]
	}
	return o
}

// Populate creates entries (path -> 'd'/'f') under dir.
func Populate(dir string, entries map[string]byte) {
	keys := make([]string, 0, len(entries))
	for k := range entries {
		keys = append(keys, k)
	}
	sort.Strings(keys)
	for _, k := range keys {
		p := filepath.Join(dir, filepath.FromSlash(k))
		if entries[k] == 'd' {
			must(os.MkdirAll(p, 0o755))
		} else if entries[k] == 'l' || entries[k] == 'L' || entries[k] == 'X' {
			// 'l': a symbolic link to an existing directory next to the target; 'L': a dangling one (to a name inside
			// the target); 'X': a dangling one that points OUTSIDE the target (to a name next to it)
			must(os.MkdirAll(filepath.Dir(p), 0o755))
			to := filepath.Join(filepath.Dir(filepath.Clean(dir)), "sibling")
			if entries[k] == 'L' {
				to = filepath.Join(dir, "no-such-entry")
			}
			if entries[k] == 'X' {
				to = filepath.Join(filepath.Dir(filepath.Clean(dir)), "planted-link-destination")
			}
			must(os.Symlink(to, p))
		} else {
			must(os.MkdirAll(filepath.Dir(p), 0o755))
			must(os.WriteFile(p, nil, 0o644))
		}
	}
}

// NoMode drops the permission bits from file entries ("f:<size>").
func (s Snap) NoMode() Snap {
	o := Snap{}
	for k, v := range s {
		if strings.HasPrefix(v, "f:") {
			p := strings.SplitN(v, ":", 3)
			v = "f:" + p[1]
		}
		o[k] = v
	}
	return o
}
