// Package sut wraps calls into the real gtree library (panic capture, option helpers).
package sut

import (
	"bytes"
	"fmt"
	"runtime/debug"
	"strings"

	"github.com/ddddddO/gtree"
	"github.com/fatih/color"

	"verifharness/model"
)

func init() { color.NoColor = true }

// Guard runs f and converts a panic into a string.
func Guard(f func()) (panicked string) {
	defer func() {
		if r := recover(); r != nil {
			st := string(debug.Stack())
			if len(st) > 1500 {
				st = st[:1500]
			}
			panicked = fmt.Sprintf("%v\n%s", r, st)
		}
	}()
	f()
	return ""
}

func FmtOpts(f model.Fmt4) []gtree.Option {
	if f == model.DefaultFmt {
		return nil
	}
	order := f.Order
	if order == "" {
		order = "ml"
	}
	var opts []gtree.Option
	for _, o := range order {
		switch o {
		case 'm':
			opts = append(opts, gtree.WithBranchFormatIntermedialNode(f.MidDirect, f.MidIndirect))
		case 'l':
			opts = append(opts, gtree.WithBranchFormatLastNode(f.LastDirect, f.LastIndirect))
		case 'y':
			opts = append(opts, gtree.WithBranchFormatIntermedialNode("Y", "y"))
		case 'x':
			opts = append(opts, gtree.WithBranchFormatLastNode("X", "x"))
		}
	}
	return opts
}

// Output calls OutputFromMarkdown on doc.
func Output(doc string, opts ...gtree.Option) (out string, err error, pan string) {
	var buf bytes.Buffer
	pan = Guard(func() { err = gtree.OutputFromMarkdown(&buf, strings.NewReader(doc), opts...) })
	return buf.String(), err, pan
}

// BuildRoot builds a gtree tree for one model root with NewRoot/Add in pre-order.
func BuildRoot(r *model.Node) *gtree.Node {
	root := gtree.NewRoot(r.Name)
	var rec func(m *model.Node, g *gtree.Node)
	rec = func(m *model.Node, g *gtree.Node) {
		for _, k := range m.Kids {
			rec(k, g.Add(k.Name))
		}
	}
	rec(r, root)
	return root
}

// OutputRoot calls OutputFromRoot.
func OutputRoot(root *gtree.Node, opts ...gtree.Option) (out string, err error, pan string) {
	var buf bytes.Buffer
	pan = Guard(func() { err = gtree.OutputFromRoot(&buf, root, opts...) })
	return buf.String(), err, pan
}

// WalkRow is what a callback sees.
type WalkRow struct {
	Name, Branch, Row, Path string
	Level                   uint
	HasChild                bool
}

func FromWalker(wn *gtree.WalkerNode) WalkRow {
	return WalkRow{Name: wn.Name(), Branch: wn.Branch(), Row: wn.Row(), Path: wn.Path(), Level: wn.Level(), HasChild: wn.HasChild()}
}
