module verifharness

go 1.24

require (
	github.com/ddddddO/gtree v0.0.0
	github.com/fatih/color v1.18.0
	github.com/pelletier/go-toml/v2 v2.2.4
	gopkg.in/yaml.v3 v3.0.1
)

replace github.com/ddddddO/gtree => /repo
