package main

import (
	"bufio"
	"encoding/json"
	"fmt"
	"os"
	"os/exec"
	"path/filepath"
	"strconv"
	"strings"

	"verifharness/rep"
)

// ---- C17: the tinywasm build renders the same trees as the default build (differential)

type c17Replay struct {
	Kind  string `json:"kind"`
	Index int64  `json:"index"`
	Tier  string `json:"tier"`
}

func drvPaths() (string, string) {
	b := os.Getenv("VERIF_BUILD")
	return filepath.Join(b, "wasmdrv-default"), filepath.Join(b, "wasmdrv-tinywasm")
}

func c17Detail(tier string, idx int64) (string, string) {
	a, b := drvPaths()
	oa, _ := exec.Command(a, "-tier", tier, "-detail", strconv.FormatInt(idx, 10)).Output()
	ob, _ := exec.Command(b, "-tier", tier, "-detail", strconv.FormatInt(idx, 10)).Output()
	return strings.TrimSpace(string(oa)), strings.TrimSpace(string(ob))
}

func init() {
	props["C17"] = func(c *rep.Ctx) {
		a, b := drvPaths()
		args := []string{"-tier", c.Tier, "-shard", strconv.Itoa(c.Shard), "-nshards", strconv.Itoa(c.NShards)}
		ca, cb := exec.Command(a, args...), exec.Command(b, args...)
		pa, _ := ca.StdoutPipe()
		pb, _ := cb.StdoutPipe()
		ca.Stderr, cb.Stderr = os.Stderr, os.Stderr
		if err := ca.Start(); err != nil {
			fmt.Fprintln(os.Stderr, "cannot start default driver:", err)
			os.Exit(3)
		}
		if err := cb.Start(); err != nil {
			fmt.Fprintln(os.Stderr, "cannot start tinywasm driver:", err)
			os.Exit(3)
		}
		sa, sb := bufio.NewScanner(pa), bufio.NewScanner(pb)
		verdicts := map[string]int64{}
		for {
			oka, okb := sa.Scan(), sb.Scan()
			if !oka || !okb {
				if oka != okb {
					c.Violation("C17|driver-stream-length-differs", "one build stopped early (crash?)", 0, nil)
				}
				break
			}
			la, lb := sa.Text(), sb.Text()
			c.Eval()
			c.Trans(1)
			fa := strings.Fields(la)
			if len(fa) >= 3 {
				verdicts[fa[1]]++
			}
			if la == lb {
				if len(fa) >= 3 && fa[1] == "panic" {
					idx, _ := strconv.ParseInt(fa[0], 10, 64)
					da, _ := c17Detail(c.Tier, idx)
					c.Violation("C17|panic-in-both-builds", da, int(idx), c17Replay{"proc-c17", idx, c.Tier})
				}
				continue
			}
			fb := strings.Fields(lb)
			idx, _ := strconv.ParseInt(fa[0], 10, 64)
			class := "output-differs"
			if len(fa) >= 3 && len(fb) >= 3 && fa[1] != fb[1] {
				class = fmt.Sprintf("decision-differs|default=%s tinywasm=%s", fa[1], fb[1])
			}
			mode, blank := "?", "nonblank"
			if len(fa) >= 5 {
				mode, blank = fa[3], fa[4]
			}
			sig := "C17|" + class + "|" + mode + "|" + blank
			detail := fmt.Sprintf("case %d (details only for the first cases of a signature)", idx)
			size := 1 << 30
			if c.R.ViolCount[sig] < 3 {
				da, db := c17Detail(c.Tier, idx)
				var ra struct{ Doc string }
				json.Unmarshal([]byte(da), &ra)
				detail = fmt.Sprintf("default : %s\ntinywasm: %s", da, db)
				size = len(ra.Doc)
			}
			c.Violation(sig, detail, size, c17Replay{"proc-c17", idx, c.Tier})
		}
		ca.Wait()
		cb.Wait()
		c.R.States = c.R.Evaluations
		c.R.Traces = c.R.Evaluations
		for k, v := range verdicts {
			c.Add("default_build_"+k, v)
		}
		c.R.Nontrivial = verdicts["err"]
		if c.Shard == 0 {
			da, _ := c17Detail(c.Tier, 1000)
			c.Sample(json.RawMessage(da))
		}
	}
	replayers["proc-c17"] = func(raw json.RawMessage) bool {
		var r c17Replay
		json.Unmarshal(raw, &r)
		da, db := c17Detail(r.Tier, r.Index)
		fmt.Printf("default : %s\ntinywasm: %s\n", da, db)
		return da != db
	}
}
