package main

import (
	"bytes"
	"context"
	"encoding/json"
	"fmt"
	"io"
	"os"
	"os/exec"
	"path/filepath"
	"sort"
	"strings"
	"syscall"
	"time"

	"github.com/ddddddO/gtree"
	"github.com/fatih/color"

	"verifharness/enum"
	"verifharness/fsx"
	"verifharness/rep"
)

// ---- C16: the CLI is a faithful front end with a truthful exit status

type c16Case struct {
	Kind    string          `json:"kind"`
	Cmd     string          `json:"cmd"` // output | mkdir | verify
	Doc     string          `json:"doc"`
	DocName string          `json:"doc_name"`
	Args    []string        `json:"args"`   // flags after the subcommand (without --file / --target-dir)
	Input   string          `json:"input"`  // stdin | file | dash | missing
	Extra   string          `json:"extra"`  // "" | stray | unknown
	Stdout  string          `json:"stdout"` // pipe | closed | full
	Target  string          `json:"target"` // "" (cwd) | dir | missing
	Pre     map[string]byte `json:"pre"`
}

type cliResult struct {
	stdout, stderr string
	code           int
	fs             fsx.Snap
}

func cliBin() string { return filepath.Join(os.Getenv("VERIF_BUILD"), "gtree-cli") }

func runCLI(cs c16Case) cliResult {
	j := fsx.NewJail("c16")
	defer j.Remove()
	fsx.Populate(j.Target, cs.Pre)
	args := []string{cs.Cmd}
	args = append(args, cs.Args...)
	docFile := filepath.Join(j.Root, "doc.md")
	os.WriteFile(docFile, []byte(cs.Doc), 0o644)
	var stdin io.Reader = bytes.NewReader(nil)
	switch cs.Input {
	case "devnull":
		// what cron, CI runners and "</dev/null" give a process: a character device that is at end of input
		if f, err := os.Open("/dev/null"); err == nil {
			defer f.Close()
			stdin = f
		}
	case "nostdin":
		stdin = nil // os/exec connects the child's standard input to the null device
	case "slow-stdin":
		// a producer that pauses in the middle of the document for 1.2 s
		pr, pw := io.Pipe()
		stdin = pr
		go func() {
			h := len(cs.Doc) / 2
			pw.Write([]byte(cs.Doc[:h]))
			time.Sleep(1200 * time.Millisecond)
			pw.Write([]byte(cs.Doc[h:]))
			pw.Close()
		}()
	case "stdin":
		stdin = bytes.NewReader([]byte(cs.Doc))
	case "dash":
		args = append(args, "-f", "-")
		stdin = bytes.NewReader([]byte(cs.Doc))
	case "dash-eq":
		args = append(args, "--file=-")
		stdin = bytes.NewReader([]byte(cs.Doc))
	case "file":
		args = append(args, "--file", docFile)
	case "missing":
		args = append(args, "-f", filepath.Join(j.Root, "no-such-file.md"))
	case "devstdin":
		// a file name that is not a regular file: /dev/stdin fed by a pipe
		args = append(args, "--file", "/dev/stdin")
		stdin = bytes.NewReader([]byte(cs.Doc))
	case "fifo":
		fifo := filepath.Join(j.Root, "doc.fifo")
		if err := syscall.Mkfifo(fifo, 0o644); err == nil {
			args = append(args, "--file", fifo)
			go func() {
				if f, err := os.OpenFile(fifo, os.O_WRONLY, 0); err == nil {
					f.Write([]byte(cs.Doc))
					f.Close()
				}
			}()
		} else {
			args = append(args, "--file", docFile)
		}
	}
	switch cs.Target {
	case "dir":
		args = append(args, "--target-dir", j.Target)
	case "missing":
		args = append(args, "--target-dir", filepath.Join(j.Target, "nope", "deeper"))
	case "tilde":
		// a relative directory whose name begins with a tilde (the shell does not expand "~out", nor "--target-dir=~/x")
		args = append(args, "--target-dir", "~out")
	case "tilde-eq":
		args = append(args, "--target-dir=~v/w")
	}
	switch cs.Extra {
	case "stray":
		args = append(args, "stray-argument")
	case "unknown":
		args = append([]string{cs.Cmd, "--no-such-flag"}, args[1:]...)
	case "empty-first":
		// an empty-string argument right after the subcommand (what a shell passes for "$UNSET"); flags follow it
		args = append([]string{cs.Cmd, ""}, args[1:]...)
	case "empty-last":
		args = append(args, "")
	}
	var cmd *exec.Cmd
	var so, se bytes.Buffer
	switch cs.Stdout {
	case "closed":
		quoted := make([]string, len(args))
		for i, a := range args {
			quoted[i] = "'" + strings.ReplaceAll(a, "'", `'\''`) + "'"
		}
		cmd = exec.Command("/bin/sh", "-c", "exec '"+cliBin()+"' "+strings.Join(quoted, " ")+" >&-")
	default:
		cmd = exec.Command(cliBin(), args...)
	}
	cmd.Dir = j.Target
	if stdin != nil {
		cmd.Stdin = stdin
	}
	cmd.Stderr = &se
	os.MkdirAll(filepath.Join(j.Root, "home"), 0o755)
	cmd.Env = append(os.Environ(), "NO_COLOR=1", "TERM=dumb", "HOME="+filepath.Join(j.Root, "home"))
	switch cs.Stdout {
	case "pipe":
		cmd.Stdout = &so
	case "full":
		f, err := os.OpenFile("/dev/full", os.O_WRONLY, 0)
		if err == nil {
			defer f.Close()
			cmd.Stdout = f
		}
	case "brokenpipe":
		// a pipe whose reader has gone before the first byte (`gtree ... | true`)
		pr, pw, err := os.Pipe()
		if err == nil {
			pr.Close()
			defer pw.Close()
			cmd.Stdout = pw
		}
	}
	// a CLI invocation takes milliseconds; one that is still running after 120 s is killed and reported
	err := cmd.Start()
	code := 0
	if err == nil {
		done := make(chan error, 1)
		go func() { done <- cmd.Wait() }()
		select {
		case err = <-done:
		case <-time.After(120 * time.Second):
			cmd.Process.Kill()
			<-done
			return cliResult{so.String(), se.String() + "\n(verif: killed after 120 s)", -999, fsx.Snapshot(j.Target)}
		}
	}
	if ee, ok := err.(*exec.ExitError); ok {
		code = ee.ExitCode()
	} else if err != nil {
		code = -1
	}
	snap := fsx.Snapshot(j.Target)
	return cliResult{so.String(), se.String(), code, snap}
}

// runLib performs the library call the CLI is documented to make, in a twin jail.
func runLib(cs c16Case) (out string, err error, snap fsx.Snap, usage bool) {
	j := fsx.NewJail("c16l")
	defer j.Remove()
	fsx.Populate(j.Target, cs.Pre)
	if cs.Extra != "" {
		return "", nil, fsx.Snapshot(j.Target), true
	}
	if cs.Input == "missing" {
		return "", fmt.Errorf("open: no such file"), fsx.Snapshot(j.Target), false
	}
	var opts []gtree.Option
	massive := false
	dry := false
	strict := false
	timeout := false
	var exts []string
	defer func() {
		// a timeout of 200 ms and a producer that pauses for 1.2 s: the call made with that deadline ends with the
		// context's error (C11), whatever else is on the command line
		if timeout && cs.Input == "slow-stdin" && !usage && err == nil {
			err = context.DeadlineExceeded
		}
	}()
	for i := 0; i < len(cs.Args); i++ {
		switch cs.Args[i] {
		case "--format":
			i++
			switch cs.Args[i] {
			case "json":
				opts = append(opts, gtree.WithEncodeJSON())
			case "yaml":
				opts = append(opts, gtree.WithEncodeYAML())
			case "toml":
				opts = append(opts, gtree.WithEncodeTOML())
			default:
				return "", nil, fsx.Snapshot(j.Target), true
			}
		case "--massive", "-m", "--massive=true":
			massive = true
		case "--massive=false", "--strict=false", "--dry-run=false":
			// a boolean flag spelled out as false (what a script passes for --flag=$VAR) leaves the default
		case "--massive-timeout", "--mt":
			i++
			massive = true
			timeout = cs.Args[i] == "200ms"
			if strings.HasPrefix(cs.Args[i], "-") || cs.Args[i] == "0" || cs.Args[i] == "0s" {
				return "", nil, fsx.Snapshot(j.Target), true
			}
		case "--dry-run", "-d", "--dry-run=true":
			dry = true
		case "--strict", "--strict=true":
			strict = true
		case "-e", "--extension":
			i++
			exts = append(exts, cs.Args[i])
		}
	}
	// --massive: the reference is the simple-mode call (C10 relates the two); an in-process massive call
	// could take the harness down with a panic in a goroutine
	_ = massive
	_ = context.Background
	target := j.Target
	wd, _ := os.Getwd()
	os.Chdir(j.Target)
	defer os.Chdir(wd)
	switch cs.Target {
	case "":
		target = ""
	case "missing":
		target = filepath.Join(j.Target, "nope", "deeper")
	case "tilde":
		target = "~out"
	case "tilde-eq":
		target = "~v/w"
	}
	var buf bytes.Buffer
	func() {
		defer func() {
			if r := recover(); r != nil {
				err = fmt.Errorf("library panic: %v", r)
			}
		}()
		rd := strings.NewReader(cs.Doc)
		switch canonicalCmd(cs.Cmd) {
		case "output":
			err = gtree.OutputFromMarkdown(&buf, rd, opts...)
		case "mkdir":
			o := append(opts, gtree.WithTargetDir(target), gtree.WithFileExtensions(exts))
			if dry {
				err = gtree.OutputFromMarkdown(&buf, rd, append(o, gtree.WithDryRun())...)
			} else {
				err = gtree.MkdirFromMarkdown(rd, o...)
			}
		case "verify":
			o := append(opts, gtree.WithTargetDir(target))
			if strict {
				o = append(o, gtree.WithStrictVerify())
			}
			err = gtree.VerifyFromMarkdown(rd, o...)
		}
	}()
	return buf.String(), err, fsx.Snapshot(j.Target), false
}

func canonicalCmd(c string) string {
	switch c {
	case "o", "out":
		return "output"
	case "m":
		return "mkdir"
	case "vf":
		return "verify"
	}
	return c
}

// sortedLines: the output as a sorted multiset of per-root blocks (with --massive the roots may come in any order, but
// every root's block stays contiguous and intact). A block starts at a line that carries no branch prefix.
func sortedLines(s string) string {
	var blocks []string
	for _, l := range strings.SplitAfter(s, "\n") {
		if l == "" {
			continue
		}
		inner := false
		for _, p := range []string{"├── ", "└── ", "│   ", "    "} {
			if strings.HasPrefix(l, p) {
				inner = true
			}
		}
		if inner && len(blocks) > 0 {
			blocks[len(blocks)-1] += l
		} else {
			blocks = append(blocks, l)
		}
	}
	sort.Strings(blocks)
	return strings.Join(blocks, "\x00")
}

func c16Judge(c *rep.Ctx, cs c16Case) {
	if cs.Input == "devnull" || cs.Input == "nostdin" {
		cs.Doc, cs.DocName = "", "(no input: the null device)"
	}
	cli := runCLI(cs)
	lout, lerr, lsnap, usage := runLib(cs)
	c.Eval()
	c.Trans(1)
	desc := fmt.Sprintf("gtree %s %v doc=%s input=%s extra=%q stdout=%s target=%q pre=%v", cs.Cmd, cs.Args, cs.DocName, cs.Input, cs.Extra, cs.Stdout, cs.Target, cs.Pre)
	size := len(cs.Args) + len(cs.DocName)
	massive := false
	for _, a := range cs.Args {
		if a == "--massive" || a == "--massive=true" || a == "-m" || a == "--massive-timeout" || a == "--mt" {
			massive = true
		}
	}
	if cli.code == -999 {
		c.Violation("C16|cli-did-not-terminate|"+cs.Cmd, fmt.Sprintf("%s: still running after 120 s", desc), size, cs)
		return
	}
	if strings.Contains(cli.stderr, "goroutine ") && (strings.Contains(cli.stderr, "panic:") || strings.Contains(cli.stderr, "[running]")) || cli.code == 2 && strings.Contains(cli.stderr, "panic") {
		c.Violation("C16|cli-crash|"+cs.Cmd+"|"+cs.DocName, fmt.Sprintf("%s: exit %d, stderr %q", desc, cli.code, firstN(cli.stderr, 300)), size, cs)
		return
	}
	libPanicked := lerr != nil && strings.HasPrefix(lerr.Error(), "library panic")
	if libPanicked {
		return // C12's business; the CLI crash (if any) was reported above
	}
	success := !usage && lerr == nil
	// /dev/full rejects every byte. A stdout that is CLOSED at exec time is a different matter: the Go runtime
	// re-opens fds 0-2 on /dev/null at start-up, so the program's writes succeed and exit 0 is truthful there.
	if (cs.Stdout == "full" || cs.Stdout == "brokenpipe") && success && lout != "" {
		success = false // the output could not be delivered
	}
	if success && cli.code != 0 {
		c.Violation("C16|nonzero-exit-on-success|"+cs.Cmd, fmt.Sprintf("%s: exit %d stderr=%q", desc, cli.code, firstN(cli.stderr, 200)), size, cs)
	}
	if !success && cli.code == 0 {
		why := "library-error"
		switch {
		case usage:
			why = "usage-error"
		case (cs.Stdout == "full" || cs.Stdout == "brokenpipe") && lerr == nil:
			why = "stdout-" + cs.Stdout
		case cs.Input == "missing":
			why = "file-open-error"
		}
		c.Violation("C16|exit-0-on-failure|"+why+"|"+cs.Cmd, fmt.Sprintf("%s: the operation failed (library err=%v) but the exit status is 0; stderr=%q", desc, lerr, firstN(cli.stderr, 200)), size, cs)
	}
	// (a process ended by SIGPIPE - the default for a write to a broken pipe on fd 1 - says nothing, by nature)
	if cli.code != 0 && strings.TrimSpace(cli.stderr) == "" && !(cs.Stdout == "brokenpipe" && cli.code == -1) {
		c.Violation("C16|no-diagnostic-on-stderr|"+cs.Cmd, fmt.Sprintf("%s: exit %d with empty stderr", desc, cli.code), size, cs)
	}
	if cs.Stdout == "pipe" && !usage && cs.Input != "missing" {
		same := cli.stdout == lout
		if massive {
			same = sortedLines(cli.stdout) == sortedLines(lout) || lerr != nil
		}
		if !same {
			c.Violation("C16|stdout-differs-from-library|"+cs.Cmd, fmt.Sprintf("%s:\ncli: %q\nlib: %q", desc, firstN(cli.stdout, 400), firstN(lout, 400)), size, cs)
		}
	}
	if !usage && cs.Input != "missing" && !(massive && lerr != nil) {
		if !cli.fs.NoMode().Equal(lsnap.NoMode()) {
			c.Violation("C16|fs-effect-differs-from-library|"+cs.Cmd, fmt.Sprintf("%s:\ncli: %v\nlib: %v", desc, cli.fs, lsnap), size, cs)
		}
	} else if usage || cs.Input == "missing" {
		pre := fsx.Snap{}
		for k, v := range lsnap {
			pre[k] = v
		}
		if !cli.fs.NoMode().Equal(pre.NoMode()) {
			c.Violation("C16|fs-changed-by-failed-invocation|"+cs.Cmd, fmt.Sprintf("%s: %v", desc, cli.fs), size, cs)
		}
	}
}

func firstN(s string, n int) string {
	if len(s) > n {
		return s[:n] + "…"
	}
	return s
}

func readmeSample() (string, bool) {
	b, err := os.ReadFile(filepath.Join(os.Getenv("VERIF_REPO"), "README.md"))
	if err != nil {
		return "", false
	}
	s := string(b)
	i := strings.Index(s, "$ gtree template | gtree output\n")
	if i < 0 {
		return "", false
	}
	s = s[i+len("$ gtree template | gtree output\n"):]
	j := strings.Index(s, "```")
	if j < 0 {
		return "", false
	}
	return s[:j], true
}

func init() {
	color.NoColor = true
	props["C16"] = func(c *rep.Ctx) {
		tmpl, _ := exec.Command(cliBin(), "template").Output()
		docs := []struct{ name, doc string }{
			{"one-root", "- a\n  - b\n  - c.go\n"},
			{"two-roots", "- a\n  - b\n- c\n  - d\n    - e.go\n"},
			{"template", string(tmpl)},
			{"malformed", "- a\n   x\n"},
			{"empty-item", "- a\n  -\n"},
			{"invalid-name", "- a\n  - b/c\n"},
			{"empty", ""},
			{"long-line", "- a\n  - " + strings.Repeat("x", 70000) + "\n"},
		}
		if c.Thorough() {
			// thorough: every forest with up to 3 nodes over {a, b.go} is a document too
			for n := 1; n <= 3; n++ {
				enum.DepthSeqs(n, func(d []int) {
					enum.Tuples(n, 2, func(t []int) {
						doc := enum.Spell(d, enum.Pick([]string{"a", "b.go"}, t), enum.Canonical)
						docs = append(docs, struct{ name, doc string }{fmt.Sprintf("forest%q", doc), doc})
					})
				})
			}
		}
		// non-ASCII text placed so that a multi-byte rune straddles a typical probe / buffer boundary
		for _, B := range []int{512, 4096} {
			for _, off := range []int{B - 2, B - 1, B} {
				doc := "- root\n"
				for len(doc)+len("  - pad-0000-\n") < off-len("  - ") {
					doc += fmt.Sprintf("  - pad-%04d-\n", len(doc))
				}
				// the next line starts with "  - " and then x's up to the offset, then the rune
				fill := off - len(doc) - len("  - ")
				if fill < 0 {
					continue
				}
				doc += "  - " + strings.Repeat("x", fill) + "日本語\n  - tail.go\n"
				docs = append(docs, struct{ name, doc string }{fmt.Sprintf("utf8-rune-at-%d", off), doc})
			}
		}
		var cases []c16Case
		add := func(cs c16Case) { cs.Kind = "proc-c16"; cases = append(cases, cs) }
		for _, d := range docs {
			for _, format := range []string{"", "json", "yaml", "toml", "xml"} {
				for _, massive := range []bool{false, true} {
					var args []string
					if format != "" {
						args = append(args, "--format", format)
					}
					if massive {
						args = append(args, "--massive")
					}
					for _, in := range []string{"stdin", "file", "dash", "missing"} {
						add(c16Case{Cmd: "output", Doc: d.doc, DocName: d.name, Args: args, Input: in, Stdout: "pipe"})
					}
					for _, ex := range []string{"stray", "unknown", "empty-first", "empty-last"} {
						add(c16Case{Cmd: "output", Doc: d.doc, DocName: d.name, Args: args, Input: "stdin", Extra: ex, Stdout: "pipe"})
					}
					for _, in := range []string{"devstdin", "fifo"} {
						add(c16Case{Cmd: "output", Doc: d.doc, DocName: d.name, Args: args, Input: in, Stdout: "pipe"})
					}
					if !massive {
						for _, so := range []string{"closed", "full"} {
							add(c16Case{Cmd: "output", Doc: d.doc, DocName: d.name, Args: args, Input: "stdin", Stdout: so})
						}
					}
				}
			}
			for _, dry := range []bool{false, true} {
				for _, exts := range [][]string{nil, {".go"}, {".go", "b"}, {".go", "c.go"}, {"e.go", ".go"}} {
					var args []string
					if dry {
						args = append(args, "--dry-run")
					}
					for _, e := range exts {
						args = append(args, "-e", e)
					}
					for _, tgt := range []string{"", "dir", "missing"} {
						for _, pre := range []map[string]byte{nil, {"a": 'd'}, {"unrelated": 'f'}} {
							add(c16Case{Cmd: "mkdir", Doc: d.doc, DocName: d.name, Args: args, Input: "stdin", Stdout: "pipe", Target: tgt, Pre: pre})
						}
					}
					add(c16Case{Cmd: "mkdir", Doc: d.doc, DocName: d.name, Args: args, Input: "file", Stdout: "pipe", Target: "dir"})
					add(c16Case{Cmd: "mkdir", Doc: d.doc, DocName: d.name, Args: args, Input: "missing", Stdout: "pipe", Target: "dir"})
					add(c16Case{Cmd: "mkdir", Doc: d.doc, DocName: d.name, Args: args, Input: "stdin", Extra: "stray", Stdout: "pipe", Target: "dir"})
					add(c16Case{Cmd: "mkdir", Doc: d.doc, DocName: d.name, Args: args, Input: "stdin", Extra: "unknown", Stdout: "pipe", Target: "dir"})
					add(c16Case{Cmd: "mkdir", Doc: d.doc, DocName: d.name, Args: args, Input: "stdin", Extra: "empty-first", Stdout: "pipe", Target: "dir"})
					add(c16Case{Cmd: "mkdir", Doc: d.doc, DocName: d.name, Args: args, Input: "devstdin", Stdout: "pipe", Target: "dir"})
					if dry {
						add(c16Case{Cmd: "mkdir", Doc: d.doc, DocName: d.name, Args: args, Input: "stdin", Stdout: "full", Target: "dir"})
					}
				}
			}
			for _, strict := range []bool{false, true} {
				var args []string
				if strict {
					args = append(args, "--strict")
				}
				for _, tgt := range []string{"", "dir", "missing"} {
					for _, pre := range []map[string]byte{nil, {"a/b": 'd', "a/c.go": 'f'}, {"a/b": 'd', "a/c.go": 'f', "a/extra": 'd'}, {"a/b": 'd', "a/c.go": 'f', "c/d/e.go": 'f'}} {
						add(c16Case{Cmd: "verify", Doc: d.doc, DocName: d.name, Args: args, Input: "stdin", Stdout: "pipe", Target: tgt, Pre: pre})
					}
				}
				add(c16Case{Cmd: "verify", Doc: d.doc, DocName: d.name, Args: args, Input: "missing", Stdout: "pipe", Target: "dir"})
				add(c16Case{Cmd: "verify", Doc: d.doc, DocName: d.name, Args: args, Input: "stdin", Extra: "stray", Stdout: "pipe", Target: "dir"})
				add(c16Case{Cmd: "verify", Doc: d.doc, DocName: d.name, Args: args, Input: "stdin", Extra: "empty-first", Stdout: "pipe", Target: "dir", Pre: map[string]byte{"a/b": 'd', "a/c.go": 'f', "a/extra": 'd'}})
				add(c16Case{Cmd: "verify", Doc: d.doc, DocName: d.name, Args: args, Input: "fifo", Stdout: "pipe", Target: "dir", Pre: map[string]byte{"a/b": 'd', "a/c.go": 'f'}})
			}
		}
		// big inputs (a tool may treat an input differently from some size on: another reading strategy, another mode): regular
		// files and standard input of sizes next to 1, 8 and 16 MiB (thorough: every power of two up to 32 MiB), many small
		// roots; the default format in document order, JSON for the smallest
		{
			sizes := []int{1 << 20, 8<<20 - 16, 8<<20 + 16, 16<<20 + 16}
			if c.Thorough() {
				sizes = append(sizes, 2<<20+16, 4<<20+16, 32<<20+16)
			}
			for _, sz := range sizes {
				var sb strings.Builder
				for i := 0; sb.Len() < sz; i++ {
					fmt.Fprintf(&sb, "- r%07d\n  - k\n", i)
				}
				doc := sb.String()
				name := fmt.Sprintf("big-%d-bytes", sz)
				add(c16Case{Cmd: "output", Doc: doc, DocName: name, Input: "file", Stdout: "pipe"})
				add(c16Case{Cmd: "output", Doc: doc, DocName: name, Input: "stdin", Stdout: "pipe"})
				if sz == 1<<20 {
					add(c16Case{Cmd: "output", Doc: doc, DocName: name, Args: []string{"--format", "json"}, Input: "file", Stdout: "pipe"})
					add(c16Case{Cmd: "mkdir", Doc: doc, DocName: name, Args: []string{"--dry-run"}, Input: "file", Stdout: "pipe", Target: "dir"})
				}
			}
		}
		// standard output is a pipe nobody reads any more
		for _, d := range docs[:3] {
			for _, args := range [][]string{nil, {"--massive"}, {"--format", "json"}, {"--format", "yaml"}, {"--format", "toml"}} {
				add(c16Case{Cmd: "output", Doc: d.doc, DocName: d.name, Args: args, Input: "stdin", Stdout: "brokenpipe"})
			}
			add(c16Case{Cmd: "mkdir", Doc: d.doc, DocName: d.name, Args: []string{"--dry-run"}, Input: "stdin", Stdout: "brokenpipe", Target: "dir"})
			add(c16Case{Cmd: "mkdir", Doc: d.doc, DocName: d.name, Input: "stdin", Stdout: "brokenpipe", Target: "dir"})
		}
		add(c16Case{Cmd: "output", Doc: "", DocName: "empty", Input: "stdin", Stdout: "brokenpipe"})
		// target directories whose names begin with a tilde
		for _, d := range docs[:2] {
			for _, tg := range []string{"tilde", "tilde-eq"} {
				add(c16Case{Cmd: "mkdir", Doc: d.doc, DocName: d.name, Args: []string{"-e", ".go"}, Input: "stdin", Stdout: "pipe", Target: tg})
				add(c16Case{Cmd: "mkdir", Doc: d.doc, DocName: d.name, Args: []string{"--dry-run"}, Input: "stdin", Stdout: "pipe", Target: tg})
				add(c16Case{Cmd: "verify", Doc: d.doc, DocName: d.name, Args: []string{"--strict"}, Input: "stdin", Stdout: "pipe", Target: tg, Pre: map[string]byte{"~out/a/b": 'd', "~v/w/a": 'd'}})
			}
		}
		// verify with 255, 256, 257 and 512 missing paths below an existing root (and 200 missing + 56 extra, strict):
		// a failure is a failure however many paths the report lists
		for _, nMissing := range []int{255, 256, 257, 512} {
			var sb strings.Builder
			sb.WriteString("- a\n")
			for i := 0; i < nMissing; i++ {
				fmt.Fprintf(&sb, "  - m%03d\n", i)
			}
			add(c16Case{Cmd: "verify", Doc: sb.String(), DocName: fmt.Sprintf("root-with-%d-children", nMissing), Input: "stdin", Stdout: "pipe", Target: "dir", Pre: map[string]byte{"a": 'd'}})
			add(c16Case{Cmd: "verify", Doc: sb.String(), DocName: fmt.Sprintf("root-with-%d-children", nMissing), Args: []string{"--strict"}, Input: "file", Stdout: "pipe", Target: "dir", Pre: map[string]byte{"a": 'd'}})
		}
		{
			var sb strings.Builder
			pre := map[string]byte{}
			sb.WriteString("- a\n")
			for i := 0; i < 200; i++ {
				fmt.Fprintf(&sb, "  - m%03d\n", i)
			}
			for i := 0; i < 56; i++ {
				pre[fmt.Sprintf("a/x%02d", i)] = 'd'
			}
			add(c16Case{Cmd: "verify", Doc: sb.String(), DocName: "200-missing-56-extra", Args: []string{"--strict"}, Input: "stdin", Stdout: "pipe", Target: "dir", Pre: pre})
		}
		// "-" as the file name means standard input for every subcommand
		for _, d := range docs[:3] {
			add(c16Case{Cmd: "mkdir", Doc: d.doc, DocName: d.name, Args: []string{"-e", ".go"}, Input: "dash", Stdout: "pipe", Target: "dir"})
			add(c16Case{Cmd: "mkdir", Doc: d.doc, DocName: d.name, Args: []string{"--dry-run"}, Input: "dash", Stdout: "pipe", Target: "dir"})
			add(c16Case{Cmd: "verify", Doc: d.doc, DocName: d.name, Args: []string{"--strict"}, Input: "dash", Stdout: "pipe", Target: "dir", Pre: map[string]byte{"a/b": 'd', "a/c.go": 'f'}})
			add(c16Case{Cmd: "verify", Doc: d.doc, DocName: d.name, Input: "dash-eq", Stdout: "pipe", Target: "dir", Pre: map[string]byte{"a/b": 'd'}})
			add(c16Case{Cmd: "mkdir", Doc: d.doc, DocName: d.name, Input: "dash-eq", Stdout: "pipe", Target: "dir", Pre: map[string]byte{"-": 'f'}})
		}
		// boolean flags spelled out with a value
		for _, d := range docs[:3] {
			for _, pre := range []map[string]byte{{"a/b": 'd', "a/c.go": 'f'}, {"a/b": 'd', "a/c.go": 'f', "a/extra": 'd'}, nil} {
				for _, fl := range []string{"--strict=false", "--strict=true"} {
					add(c16Case{Cmd: "verify", Doc: d.doc, DocName: d.name, Args: []string{fl}, Input: "stdin", Stdout: "pipe", Target: "dir", Pre: pre})
				}
			}
			for _, fl := range []string{"--dry-run=false", "--dry-run=true"} {
				add(c16Case{Cmd: "mkdir", Doc: d.doc, DocName: d.name, Args: []string{fl, "-e", ".go"}, Input: "stdin", Stdout: "pipe", Target: "dir"})
			}
			for _, fl := range []string{"--massive=false", "--massive=true"} {
				add(c16Case{Cmd: "output", Doc: d.doc, DocName: d.name, Args: []string{fl}, Input: "file", Stdout: "pipe"})
			}
		}
		// names with an escape character (the dry-run report goes through the colour machinery)
		for _, so := range []string{"pipe", "full"} {
			for _, args := range [][]string{{"--dry-run"}, {"--dry-run", "-e", "z"}, nil} {
				add(c16Case{Cmd: "mkdir", Doc: "- x\x1b[1mbold\n  - y\x1bz\n  - \x1b[31m\n", DocName: "escape-characters-in-names", Args: args, Input: "stdin", Stdout: so, Target: "dir"})
			}
			add(c16Case{Cmd: "output", Doc: "- x\x1b[1mbold\n  - y\x1bz\n", DocName: "escape-characters-in-names", Input: "stdin", Stdout: so})
		}
		// standard input is the null device (cron, CI, "</dev/null", a parent that passes no stdin): an empty document
		for _, in := range []string{"devnull", "nostdin"} {
			for _, args := range [][]string{nil, {"--format", "json"}, {"--massive"}, {"-f", "-"}} {
				add(c16Case{Cmd: "output", Args: args, Input: in, Stdout: "pipe"})
			}
			add(c16Case{Cmd: "mkdir", Input: in, Stdout: "pipe", Target: "dir"})
			add(c16Case{Cmd: "mkdir", Args: []string{"--dry-run"}, Input: in, Stdout: "pipe", Target: "dir", Pre: map[string]byte{"a": 'd'}})
			add(c16Case{Cmd: "verify", Args: []string{"--strict"}, Input: in, Stdout: "pipe", Target: "dir", Pre: map[string]byte{"a": 'd'}})
		}
		// a producer that pauses longer than the massive timeout: the deadline counts however the massive flags are
		// combined and ordered; without a timeout the pause is just waited for
		for _, d := range docs[:2] {
			for _, args := range [][]string{{"--massive", "--massive-timeout", "200ms"}, {"--massive-timeout", "200ms", "--massive"}, {"-m", "--mt", "200ms"}, {"--mt", "200ms"}, {"--massive"}, nil, {"--mt", "30s", "-m"}} {
				add(c16Case{Cmd: "output", Doc: d.doc, DocName: d.name, Args: args, Input: "slow-stdin", Stdout: "pipe"})
			}
		}
		// aliases of subcommands and flags, the massive timeout flag, the description template
		for _, d := range docs[:4] {
			for _, al := range []string{"o", "out"} {
				add(c16Case{Cmd: al, Doc: d.doc, DocName: d.name, Input: "stdin", Stdout: "pipe"})
				add(c16Case{Cmd: al, Doc: d.doc, DocName: d.name, Args: []string{"--format", "json", "-m"}, Input: "file", Stdout: "pipe"})
			}
			add(c16Case{Cmd: "output", Doc: d.doc, DocName: d.name, Args: []string{"--massive-timeout", "1h"}, Input: "stdin", Stdout: "pipe"})
			add(c16Case{Cmd: "output", Doc: d.doc, DocName: d.name, Args: []string{"--mt", "30m", "--format", "yaml"}, Input: "stdin", Stdout: "pipe"})
			add(c16Case{Cmd: "output", Doc: d.doc, DocName: d.name, Args: []string{"--massive-timeout", "0s"}, Input: "stdin", Stdout: "pipe"})
			add(c16Case{Cmd: "output", Doc: d.doc, DocName: d.name, Args: []string{"--massive-timeout", "-1s"}, Input: "stdin", Stdout: "pipe"})
			add(c16Case{Cmd: "m", Doc: d.doc, DocName: d.name, Args: []string{"-d", "--extension", ".go"}, Input: "stdin", Stdout: "pipe", Target: "dir"})
			add(c16Case{Cmd: "m", Doc: d.doc, DocName: d.name, Args: []string{"-e", ".go", "-e", "b"}, Input: "stdin", Stdout: "pipe", Target: "dir"})
			add(c16Case{Cmd: "vf", Doc: d.doc, DocName: d.name, Args: []string{"--strict"}, Input: "stdin", Stdout: "pipe", Target: "dir", Pre: map[string]byte{"a/b": 'd', "a/c.go": 'f', "a/x": 'd'}})
		}
		if desc, err := exec.Command(cliBin(), "template", "--description").Output(); err == nil {
			add(c16Case{Cmd: "output", Doc: string(desc), DocName: "description-template", Input: "stdin", Stdout: "pipe"})
			add(c16Case{Cmd: "output", Doc: string(desc), DocName: "description-template", Args: []string{"--format", "json"}, Input: "stdin", Stdout: "pipe"})
		}
		c.Bound("cases", fmt.Sprint(len(cases)))
		for _, cs := range cases {
			if !c.Take() || c.Expired() {
				continue
			}
			c.StateN(1)
			c.Trace()
			if cs.Extra != "" || cs.Stdout != "pipe" || cs.Input == "missing" || cs.Pre != nil {
				c.Nontrivial()
			}
			if c.R.States%120 == 1 {
				c.Sample(fmt.Sprintf("gtree %s %v (doc %s, input %s, extra %q, stdout %s, target %q)", cs.Cmd, cs.Args, cs.DocName, cs.Input, cs.Extra, cs.Stdout, cs.Target))
			}
			c16Judge(c, cs)
		}
		if c.Shard == 0 {
			// template | output renders the documented sample tree; version works
			want, ok := readmeSample()
			var so bytes.Buffer
			cmd := exec.Command(cliBin(), "output")
			cmd.Stdin = bytes.NewReader(tmpl)
			cmd.Stdout = &so
			err := cmd.Run()
			c.Eval()
			if !ok {
				c.Violation("C16|readme-sample-not-found", "README.md has no '$ gtree template | gtree output' block", 0, nil)
			} else if err != nil || so.String() != want {
				c.Violation("C16|template-output-differs-from-readme", fmt.Sprintf("got %q\nwant %q (err=%v)", so.String(), want, err), 0, nil)
			}
			if out, err := exec.Command(cliBin(), "version").CombinedOutput(); err != nil || !strings.Contains(string(out), "gtree version") {
				c.Violation("C16|version-broken", fmt.Sprintf("%q %v", out, err), 0, nil)
			}
		}
	}
	replayers["proc-c16"] = func(raw json.RawMessage) bool {
		var cs c16Case
		json.Unmarshal(raw, &cs)
		c := rep.New("C16", "replay", "quick", 0, 1, 0, 0)
		c16Judge(c, cs)
		for k, v := range c.R.ViolEx {
			fmt.Println(k, v[0].Detail)
		}
		return len(c.R.ViolCount) > 0
	}
}
