// proc: checks that drive separately built programs: the CLI binary (C16) and the two
// build variants of one driver (C17).
package main

import (
	"encoding/json"
	"flag"
	"fmt"
	"os"

	"verifharness/rep"
)

var props = map[string]func(c *rep.Ctx){}
var replayers = map[string]func(raw json.RawMessage) bool{}

func main() {
	prop := flag.String("prop", "", "")
	tier := flag.String("tier", "quick", "")
	shard := flag.Int("shard", 0, "")
	nshards := flag.Int("nshards", 1, "")
	out := flag.String("out", "-", "")
	seed := flag.Int64("seed", 0, "")
	deadline := flag.Int("deadline", 0, "")
	replay := flag.String("replay", "", "")
	flag.Parse()
	if *replay != "" {
		b, err := os.ReadFile(*replay)
		if err != nil {
			fmt.Fprintln(os.Stderr, err)
			os.Exit(3)
		}
		var env struct {
			Detail string          `json:"detail"`
			Replay json.RawMessage `json:"replay"`
		}
		json.Unmarshal(b, &env)
		var k struct {
			Kind string `json:"kind"`
		}
		json.Unmarshal(env.Replay, &k)
		fmt.Println("recorded:", env.Detail)
		f, ok := replayers[k.Kind]
		if !ok {
			fmt.Println("no replayer for kind", k.Kind)
			os.Exit(3)
		}
		if f(env.Replay) {
			fmt.Println("REPRODUCED")
			os.Exit(1)
		}
		fmt.Println("not reproduced")
		return
	}
	f, ok := props[*prop]
	if !ok {
		fmt.Fprintln(os.Stderr, "unknown property", *prop)
		os.Exit(3)
	}
	c := rep.New(*prop, "proc", *tier, *shard, *nshards, *seed, *deadline)
	f(c)
	if err := c.Write(*out); err != nil {
		fmt.Fprintln(os.Stderr, err)
		os.Exit(3)
	}
}
