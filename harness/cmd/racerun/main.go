// racerun: SUPPLEMENTARY free-running pass for C11's race clause. The unrewritten tree is built with -race and
// massive-mode drivers run on real goroutines at several GOMAXPROCS values. A report of Go's race detector is a
// true positive and becomes a violation; silence proves nothing and is recorded as such (the deciding check is the
// exhaustive exploration with the vector-clock monitor in cmd/mcx). Parent mode spawns the child and parses stderr.
package main

import (
	"bytes"
	"context"
	"errors"
	"flag"
	"fmt"
	"os"
	"os/exec"
	"regexp"
	"runtime"
	"strings"
	"sync"
	"time"

	"github.com/ddddddO/gtree"
	"github.com/fatih/color"

	"verifharness/rep"
)

type lockedBuf struct {
	mu sync.Mutex
	b  bytes.Buffer
	n  int
	at int
}

func (l *lockedBuf) Write(p []byte) (int, error) {
	// deliberately NOT locked: massive-mode writers are documented to be serialised by the library
	l.n++
	if l.at > 0 && l.n >= l.at {
		return 0, errors.New("injected")
	}
	return l.b.Write(p)
}

func child(reps int) {
	color.NoColor = true
	docs := []string{
		"- a\n  - b\n- c\n  - d\n- e\n", "# a\n# b\n# c\n", "- a\n  -\n- c\n  -\n- e\n  -\n- g\n", "* a\n\t* b\n+ c\n\t+ d\n- e\n\t- f\n",
		"- a\n  - b\n    - c\n- d\n      - e\n- f\n",
	}
	for _, procs := range []int{1, 4, 16} {
		runtime.GOMAXPROCS(procs)
		for r := 0; r < reps; r++ {
			for di, doc := range docs {
				for _, mode := range []string{"text", "json", "dry", "walk", "cancel", "writerfail"} {
					ctx, cancel := context.WithCancel(context.Background())
					w := &lockedBuf{}
					opts := []gtree.Option{gtree.WithMassive(ctx)}
					switch mode {
					case "json":
						opts = append(opts, gtree.WithEncodeJSON())
					case "dry":
						opts = append(opts, gtree.WithDryRun())
					case "writerfail":
						w.at = 1 + (r+di)%3
					case "cancel":
						go cancel()
					}
					if mode == "walk" {
						var mu sync.Mutex
						n := 0
						_ = gtree.WalkFromMarkdown(strings.NewReader(doc), func(wn *gtree.WalkerNode) error {
							mu.Lock()
							n++
							mu.Unlock()
							_ = wn.Row()
							return nil
						}, opts...)
					} else {
						_ = gtree.OutputFromMarkdown(w, strings.NewReader(doc), opts...)
					}
					cancel()
				}
			}
			// two trees built and printed concurrently (C13's concurrent clause)
			var wg sync.WaitGroup
			for g := 0; g < 2; g++ {
				wg.Add(1)
				go func(g int) {
					defer wg.Done()
					root := gtree.NewRoot(fmt.Sprint("r", g))
					root.Add("a").Add("b")
					root.Add("c")
					var b bytes.Buffer
					_ = gtree.OutputFromRoot(&b, root)
					_ = gtree.OutputFromMarkdown(&b, strings.NewReader("- x\n  - y\n"))
				}(g)
			}
			wg.Wait()
		}
	}
}

var reFunc = regexp.MustCompile(`(?m)^\s*(github\.com/ddddddO/gtree\S*?)\(\)\s*$`)

func main() {
	prop := flag.String("prop", "C11", "")
	tier := flag.String("tier", "quick", "")
	shard := flag.Int("shard", 0, "")
	nshards := flag.Int("nshards", 1, "")
	out := flag.String("out", "-", "")
	seed := flag.Int64("seed", 0, "")
	deadline := flag.Int("deadline", 0, "")
	isChild := flag.Int("child", 0, "")
	flag.String("part", "", "")
	flag.Parse()
	if *isChild > 0 {
		child(*isChild)
		return
	}
	c := rep.New(*prop, "race-supp", *tier, *shard, *nshards, *seed, *deadline)
	reps := 30
	if *tier == "thorough" {
		reps = 300
	}
	cmd := exec.Command(os.Args[0], "-child", fmt.Sprint(reps))
	cmd.Env = append(os.Environ(), "GORACE=halt_on_error=0 exitcode=0")
	var se bytes.Buffer
	cmd.Stderr = &se
	cmd.Stdout = &se
	// the free-running child is killed after 120 s (it normally takes 2-5 s): a mutant that makes a massive call hang
	// must not hang the check; the hang itself is decided by the exhaustive part, here it is only an indicator
	if err := cmd.Start(); err != nil {
		fmt.Fprintln(os.Stderr, err)
		os.Exit(3)
	}
	done := make(chan error, 1)
	go func() { done <- cmd.Wait() }()
	var err error
	select {
	case err = <-done:
	case <-time.After(120 * time.Second):
		cmd.Process.Kill()
		err = <-done
		c.Inc("child_killed_after_120s")
	}
	c.R.Evaluations = int64(reps * 3 * (5*6 + 1))
	c.R.Transitions = c.R.Evaluations
	c.R.States = 1
	c.R.Exhaustive = false
	c.R.Capped = "supplementary sampling pass (free-running -race build): silence proves nothing"
	c.Sample(map[string]any{"supplementary_race_runs": c.R.Evaluations, "gomaxprocs": []int{1, 4, 16}})
	txt := se.String()
	if err != nil && !strings.Contains(txt, "DATA RACE") {
		// a crash of the free-running child (panic in a goroutine) is C12's business; recorded, not judged here
		c.Inc("child_crashed")
	}
	for _, blk := range strings.Split(txt, "WARNING: DATA RACE")[1:] {
		fs := reFunc.FindAllStringSubmatch(blk, 4)
		var names []string
		for _, f := range fs {
			n := f[1]
			if i := strings.LastIndex(n, "/"); i >= 0 {
				n = n[i+1:]
			}
			names = append(names, n)
		}
		if len(names) > 2 {
			names = names[:2]
		}
		if len(blk) > 1800 {
			blk = blk[:1800]
		}
		c.Violation("C11|race-detector|"+strings.Join(names, " <-> "), "Go race detector report (free-running -race build):\n"+blk, 0, nil)
	}
	if err := c.Write(*out); err != nil {
		fmt.Fprintln(os.Stderr, err)
		os.Exit(3)
	}
}
