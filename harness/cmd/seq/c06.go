package main

import (
	"encoding/json"
	"errors"
	"fmt"
	"os"
	"path/filepath"
	"sort"
	"strings"

	"github.com/ddddddO/gtree"

	"verifharness/enum"
	"verifharness/fsx"
	"verifharness/model"
	"verifharness/rep"
	"verifharness/sut"
)

// ---- C06: mkdir creates exactly the tree

var c06Names = []string{"a", "b.go", "Makefile", "x.go.md", "d"}
var c06Exts = [][]string{nil, {".go"}, {"Makefile"}, {".go", ".md"}, {"go"}, {".md", ".go.md"}}

// lists with repeated and unsorted entries (a list is a set of suffixes; the caller's slice is only read)
// ... and lists whose only matching entry spans more than one dot segment of the name (".go.md" with no ".md"
// beside it, "o.md" with no leading dot): an entry is a plain suffix, not the name's last extension
var c06DupExts = [][]string{{".md", ".go", ".md"}, {"go", "go", "Makefile", ".go"}, {".go.md"}, {"o.md", ".x"}}

type c06Replay struct {
	Kind   string          `json:"kind"`
	Depth  []int           `json:"depth"`
	Names  []string        `json:"names"`
	Exts   []string        `json:"exts"`
	Pre    map[string]byte `json:"pre"`
	Target string          `json:"target_state"`
	Route  string          `json:"route"`
	Extra  string          `json:"extra_options,omitempty"`
}

// options that do not concern what Mkdir creates (the massive option only changes how it is done)
var c06Extras = []string{"json", "yaml", "toml", "fmt", "noiter", "strict", "nil", "massive", "massive-nil", "nil,yaml,strict", "massive,toml"}

func c06Case(c *rep.Ctx, r c06Replay) {
	f := enum.Build(r.Depth, r.Names)
	m := model.Merge(f)
	plan := model.Plan(m, r.Exts)
	j := fsx.NewJail("c06")
	defer j.Remove()
	target := j.Target
	switch r.Target {
	case "missing":
		os.Remove(target)
	case "mode-0700", "mode-0775":
		// a target directory (and a directory next to it) with permissions of its own: they are the caller's
		var m os.FileMode = 0o700
		if r.Target == "mode-0775" {
			m = 0o775
		}
		os.Chmod(target, m)
		os.Chmod(filepath.Dir(target), m)
	}
	if len(r.Pre) > 0 {
		fsx.Populate(target, r.Pre)
	}
	before := fsx.Snapshot(j.Root)
	modesBefore := fsx.DirModes(j.Root)
	var err error
	afterCall := func() {}
	opts := []gtree.Option{gtree.WithTargetDir(target), gtree.WithFileExtensions(r.Exts)}
	switch r.Target {
	case "trailing-slash":
		opts[0] = gtree.WithTargetDir(target + "/")
	case "relative":
		wd, _ := os.Getwd()
		os.Chdir(filepath.Dir(target))
		defer os.Chdir(wd)
		opts[0] = gtree.WithTargetDir("./" + filepath.Base(target) + "/.")
	case "symlink":
		// the target is given by a symbolic link to it: everything appears in the directory the link points to
		link := filepath.Join(j.Root, "link-to-target")
		os.Symlink(target, link)
		afterCall = func() { os.Remove(link) }
		opts[0] = gtree.WithTargetDir(link)
	case "symlink-dotdot":
		// "<dir>/link-up/../target": as text that is <dir>/target; following the link first would lead elsewhere
		dir := filepath.Dir(target)
		os.MkdirAll(filepath.Join(dir, "sibling", "deep"), 0o755)
		os.MkdirAll(filepath.Join(dir, "sibling", "target"), 0o755)
		link := filepath.Join(dir, "link-up")
		os.Symlink(filepath.Join(dir, "sibling", "deep"), link)
		before = fsx.Snapshot(j.Root)
		modesBefore = fsx.DirModes(j.Root)
		opts[0] = gtree.WithTargetDir(link + "/../target")
	case "given-twice":
		// the later option counts
		opts = []gtree.Option{gtree.WithTargetDir(""), gtree.WithTargetDir(filepath.Dir(target)), nil, gtree.WithFileExtensions(r.Exts), gtree.WithTargetDir(target)}
	case "cwd-given-last":
		wd, _ := os.Getwd()
		os.Chdir(target)
		defer os.Chdir(wd)
		opts = []gtree.Option{gtree.WithTargetDir(filepath.Join(j.Root, "elsewhere")), gtree.WithFileExtensions(r.Exts), gtree.WithTargetDir("")}
	case "cwd-empty-option", "cwd-no-option":
		// the documented default: the current directory (no option, or an empty string)
		wd, _ := os.Getwd()
		os.Chdir(target)
		defer os.Chdir(wd)
		opts = []gtree.Option{gtree.WithFileExtensions(r.Exts), nil}
		if r.Target == "cwd-empty-option" {
			opts = append(opts, gtree.WithTargetDir(""))
		}
	}
	opts = append(opts, extraOpts(r.Extra, "")...)
	extsGiven := append([]string{}, r.Exts...)
	defer func() {
		if strings.Join(extsGiven, "\x00") != strings.Join(r.Exts, "\x00") {
			c.Violation("C06|callers-extension-list-modified", fmt.Sprintf("tree=%s: the list %q passed to WithFileExtensions is %q after the call", model.Key(m), extsGiven, r.Exts), len(r.Depth), nil)
		}
	}()
	pan := guardMaybeMassive(strings.Contains(r.Extra, "massive"), func() {
		switch r.Route {
		case "root":
			err = gtree.MkdirFromRoot(sut.BuildRoot(f[0]), opts...)
		case "root-alias":
			err = gtree.MkdirProgrammably(sut.BuildRoot(f[0]), opts...)
		case "md-alias":
			err = gtree.Mkdir(strings.NewReader(enum.Spell(r.Depth, r.Names, enum.Canonical)), opts...)
		default:
			err = gtree.MkdirFromMarkdown(strings.NewReader(enum.Spell(r.Depth, r.Names, enum.Canonical)), opts...)
		}
	})
	afterCall()
	after := fsx.Snapshot(j.Root)
	c.Eval()
	c.Trans(len(plan))
	size := len(r.Depth)*10 + len(r.Exts) + len(r.Pre)
	desc := fmt.Sprintf("route=%s tree=%s exts=%q pre=%v target=%s", r.Route, model.Key(m), r.Exts, r.Pre, r.Target)
	if r.Extra != "" {
		desc += " extra options=" + r.Extra
	}
	if pan != "" {
		c.Violation("C06|panic", desc+": "+pan, size, r)
		return
	}
	if d := fsx.Diff(before.Outside("p/q/target"), after.Outside("p/q/target")); d != "" {
		c.Violation("C06|changed-outside-target", desc+": "+d, size, r)
	}
	// nothing that existed before has changed: that includes the permissions of directories (the target's too)
	modesAfter := fsx.DirModes(j.Root)
	for p, m := range modesBefore {
		if ma, ok := modesAfter[p]; ok && ma != m {
			c.Violation("C06|mode-of-existing-directory-changed", fmt.Sprintf("%s: %s was %o and is %o after the call", desc, p, m, ma), size, r)
			break
		}
	}
	rootExists := false
	for _, rt := range m {
		if _, ok := r.Pre[rt.Name]; ok {
			rootExists = true
		}
	}
	bt, at := before.Under("p/q/target"), after.Under("p/q/target")
	if rootExists {
		if !errors.Is(err, gtree.ErrExistPath) {
			c.Violation("C06|existing-root-not-reported", fmt.Sprintf("%s: err=%v, want ErrExistPath", desc, err), size, r)
		}
		if !bt.Equal(at) {
			c.Violation("C06|existing-root-but-fs-changed", fmt.Sprintf("%s: %s", desc, fsx.Diff(bt, at)), size, r)
		}
		return
	}
	if err != nil {
		c.Violation("C06|unexpected-error", fmt.Sprintf("%s: %v", desc, err), size, r)
		return
	}
	// exactly the plan is new; everything that existed is untouched
	want := fsx.Snap{}
	at = at.NoMode()
	for k, v := range bt.NoMode() {
		want[k] = v
	}
	for p, kind := range plan {
		if kind == 'f' {
			want[p] = "f:0"
		} else {
			want[p] = "d"
		}
	}
	if !want.Equal(at) {
		c.Violation("C06|wrong-entries", fmt.Sprintf("%s\n diff(expected -> actual): %s", desc, fsx.Diff(want, at)), size, r)
	}
}

func distinctRoots(f model.Forest) bool {
	seen := map[string]bool{}
	for _, r := range f {
		if seen[r.Name] {
			return false
		}
		seen[r.Name] = true
	}
	return true
}

func init() {
	props["C06"] = func(c *rep.Ctx) {
		maxN := 4
		if c.Thorough() {
			maxN = 5
		}
		c.Bound("nodes", fmt.Sprint(maxN))
		for n := 1; n <= maxN && !c.Expired(); n++ {
			enum.DepthSeqs(n, func(d0 []int) {
				d := append([]int{}, d0...)
				enum.Tuples(n, len(c06Names), func(t []int) {
					names := enum.Pick(c06Names, t)
					f := enum.Build(d, names)
					if !distinctRoots(f) {
						return
					}
					if !c.Take() || c.Expired() {
						return
					}
					c.StateN(1)
					c.Trace()
					var roots []string
					for _, r := range f {
						roots = append(roots, r.Name)
					}
					if c.R.States%3000 == 1 {
						c.Sample(map[string]any{"doc": enum.Spell(d, names, enum.Canonical), "exts": c06Exts})
					}
					allExts := c06Exts
					if n <= 3 {
						allExts = append(append([][]string{}, c06Exts...), c06DupExts...)
					}
					for ei, exts := range allExts {
						exts = append([]string{}, exts...)
						if n == maxN && n > 4 && ei%2 == 1 {
							continue
						}
						base := c06Replay{Kind: "c06", Depth: d, Names: names, Exts: exts, Route: "md", Target: "empty"}
						c06Case(c, base)
						if len(f) == 1 {
							b := base
							b.Route = "root"
							c06Case(c, b)
						}
						if n <= 3 {
							// the deprecated aliases take the same options and do the same
							b := base
							b.Route = "md-alias"
							c06Case(c, b)
							b.Pre = map[string]byte{roots[0]: 'd'}
							c06Case(c, b)
							if len(f) == 1 {
								b.Route = "root-alias"
								c06Case(c, b)
								b.Pre = nil
								c06Case(c, b)
							}
						}
						if n <= 3 && ei <= 1 {
							for _, ex := range c06Extras {
								b := base
								b.Extra = ex
								c06Case(c, b)
								if len(f) == 1 {
									b.Route = "root"
									c06Case(c, b)
								}
								if !strings.Contains(ex, "massive") {
									b.Pre = map[string]byte{roots[len(roots)-1]: 'd', "unrelated": 'f'}
									c06Case(c, b)
								} else if len(f) == 1 {
									// (several roots: what a failing massive Mkdir leaves behind is C10's known finding)
									for _, kind := range []byte{'d', 'f'} {
										b.Route = "md"
										b.Pre = map[string]byte{roots[0]: kind, "unrelated": 'f'}
										c06Case(c, b)
										b.Route = "root"
										c06Case(c, b)
									}
								}
							}
						}
						if ei > 1 && n > 3 {
							continue
						}
						b := base
						b.Target = "missing"
						c06Case(c, b)
						if n <= 3 {
							for _, tg := range []string{"cwd-empty-option", "cwd-no-option", "trailing-slash", "relative", "given-twice", "cwd-given-last", "symlink", "mode-0700", "mode-0775", "symlink-dotdot"} {
								b := base
								b.Target = tg
								c06Case(c, b)
								if tg == "symlink-dotdot" || tg == "symlink" || tg == "relative" {
									b.Extra = "massive"
									c06Case(c, b)
									b.Extra = ""
								}
								if len(f) == 1 {
									b.Route = "root"
									c06Case(c, b)
								}
							}
						}
						// pre-existing roots: every non-empty subset of at most 2 roots, as directory and as file; plus unrelated entries
						b = base
						b.Pre = map[string]byte{"unrelated/keep": 'f', "zzz": 'd'}
						c06Case(c, b)
						for i := range roots {
							for _, kind := range []byte{'d', 'f', 'l', 'L', 'X'} {
								if (kind == 'l' || kind == 'L' || kind == 'X') && n > 3 {
									continue // a root that exists as a symbolic link: to a directory, or dangling (to a name inside / outside the target)
								}
								b := base
								b.Pre = map[string]byte{roots[i]: kind, "unrelated": 'd'}
								c.Nontrivial()
								c06Case(c, b)
								if len(f) == 1 {
									b.Route = "root"
									c06Case(c, b)
								}
								for k := i + 1; k < len(roots); k++ {
									b2 := base
									b2.Pre = map[string]byte{roots[i]: kind, roots[k]: 'd'}
									c06Case(c, b2)
								}
							}
						}
					}
				})
			})
		}
		// size families: wide fan-out (files and directories mixed), deep chains, many roots
		for size := 1; size <= 40 && !c.Expired(); size++ {
			if !c.Take() {
				continue
			}
			var dw, dc, dr []int
			var nw, nc, nr []string
			dw, nw = append(dw, 1), append(nw, "wide")
			for i := 0; i < size; i++ {
				dw = append(dw, 2)
				if i%3 == 1 {
					nw = append(nw, fmt.Sprintf("f%02d.go", i))
				} else {
					nw = append(nw, fmt.Sprintf("d%02d", i))
				}
				dc = append(dc, i+1)
				nc = append(nc, fmt.Sprintf("n%02d", i))
				dr = append(dr, 1, 2)
				nr = append(nr, fmt.Sprintf("root%02d", i), "k.go")
			}
			dc = append(dc, size+1)
			nc = append(nc, "leaf.go")
			c.StateN(3)
			c.Inc("size_family_cases")
			for _, ex := range [][]string{nil, {".go"}} {
				c06Case(c, c06Replay{Kind: "c06", Depth: dw, Names: nw, Exts: ex, Route: "md", Target: "empty"})
				c06Case(c, c06Replay{Kind: "c06", Depth: dw, Names: nw, Exts: ex, Route: "root", Target: "empty"})
				c06Case(c, c06Replay{Kind: "c06", Depth: dc, Names: nc, Exts: ex, Route: "md", Target: "missing"})
				c06Case(c, c06Replay{Kind: "c06", Depth: dr, Names: nr, Exts: ex, Route: "md", Target: "empty"})
				// the last root exists already: nothing at all may be created
				c06Case(c, c06Replay{Kind: "c06", Depth: dr, Names: nr, Exts: ex, Route: "md", Target: "empty", Pre: map[string]byte{fmt.Sprintf("root%02d", size-1): 'd'}})
			}
		}
		// the size sweep (enum/size.go): every width and depth up to the bound; once with every child of the wide parent
		// carrying a configured extension (a childless one is a file, one that got a child is a directory), once without
		upTo, far, deepTo, deepFar := 140, 1030, 130, 260 // (file-system work per case: widths get a smaller every-integer bound here than in C01-C05)
		if c.Thorough() {
			upTo, far, deepTo, deepFar = 1100, 2100, 300, 520
		}
		c.Bound("size_sweep_width_every_integer_up_to", fmt.Sprint(upTo))
		c.Bound("size_sweep_depth_every_integer_up_to", fmt.Sprint(deepTo))
		c.Bound("size_sweep_depth_power_of_two_neighbours_up_to", fmt.Sprint(deepFar))
		sweep := func(s enum.SizeShape) {
			if !c.Take() || c.Expired() {
				return
			}
			f := enum.Build(s.D, s.Names)
			if !distinctRoots(f) {
				return
			}
			c.StateN(1)
			c.Nontrivial()
			c.Inc("size_sweep_cases")
			withExt := make([]string, len(s.Names))
			for i, nm := range s.Names {
				withExt[i] = nm
				if strings.HasPrefix(nm, "c0") || strings.HasPrefix(nm, "c1") || nm == "bk" || strings.HasPrefix(nm, "t") {
					withExt[i] = nm + ".go"
				}
			}
			routes := []string{"md", "root"}
			if len(f) != 1 {
				routes = routes[:1]
			}
			route := routes[s.Size%len(routes)]
			extra := []string{"", "", "massive"}[s.Size%3]
			c06Case(c, c06Replay{Kind: "c06", Depth: s.D, Names: withExt, Exts: []string{".go"}, Route: "md", Target: "empty"})
			c06Case(c, c06Replay{Kind: "c06", Depth: s.D, Names: withExt, Exts: []string{".go"}, Route: route, Target: "missing", Extra: extra})
			c06Case(c, c06Replay{Kind: "c06", Depth: s.D, Names: s.Names, Exts: nil, Route: routes[len(routes)-1], Target: "empty"})
		}
		enum.DeepShapes(enum.Sizes(deepTo, deepFar), sweep)
		enum.WideShapes(enum.Sizes(upTo, far), sweep)
		// wide AND wide (W children with W children each): every W up to 20, then next to the powers of two up to 130;
		// simple and with the massive option (work that is handed out per child must come back)
		enum.SquareShapes(enum.Sizes(20, 130), func(s enum.SizeShape) {
			if !c.Take() || c.Expired() {
				return
			}
			c.StateN(1)
			c.Nontrivial()
			c.Inc("square_cases")
			c06Case(c, c06Replay{Kind: "c06", Depth: s.D, Names: s.Names, Exts: nil, Route: "md", Target: "empty", Extra: "massive"})
			c06Case(c, c06Replay{Kind: "c06", Depth: s.D, Names: s.Names, Exts: []string{"g0001"}, Route: []string{"root", "md"}[s.Size%2], Target: "missing", Extra: []string{"", "massive-nil"}[s.Size%2]})
		})
		enum.TwinShapes(func(s enum.SizeShape) {
			for _, nm := range s.Names {
				if strings.ContainsAny(nm, "/") {
					return
				}
			}
			sweep(s)
		})
		// names the shell, printf-style formatting, file managers and version control give a meaning to: they are names like
		// any other; every forest of up to two nodes, simple and massive
		special := []string{"%s", "100%.txt", "my%20docs", "%d%%", "a%!b", "%v.md", ".DS_Store", "Thumbs.db", "desktop.ini", ".git", "README.md", "node_modules", "CON", "lost+found", "~", "$HOME", "{}", "{{.}}", "`x`", "a;b", "-rf", "--", "*.go"}
		for n := 1; n <= 2 && !c.Expired(); n++ {
			enum.DepthSeqs(n, func(d0 []int) {
				d := append([]int{}, d0...)
				enum.Tuples(n, len(special), func(t []int) {
					names := enum.Pick(special, t)
					f := enum.Build(d, names)
					if !distinctRoots(f) || !c.Take() || c.Expired() {
						return
					}
					c.StateN(1)
					c.Nontrivial()
					c.Inc("special_name_forests")
					for _, ex := range [][]string{nil, {".txt", ".md", ".go"}} {
						c06Case(c, c06Replay{Kind: "c06", Depth: d, Names: names, Exts: ex, Route: "md", Target: "empty"})
						c06Case(c, c06Replay{Kind: "c06", Depth: d, Names: names, Exts: ex, Route: "md", Target: "empty", Extra: "massive"})
						if len(f) == 1 {
							c06Case(c, c06Replay{Kind: "c06", Depth: d, Names: names, Exts: ex, Route: "root", Target: "missing"})
							c06Case(c, c06Replay{Kind: "c06", Depth: d, Names: names, Exts: ex, Route: "root", Target: "empty", Extra: "massive-nil"})
						}
					}
				})
			})
		}
		// names with multi-byte runes, combining marks, blanks and a 255-byte name (the longest a directory entry may have)
		uni := []string{"é日本.go", "e\u0301 x", "a", strings.Repeat("長", 85)}
		for n := 1; n <= 3 && !c.Expired(); n++ {
			enum.DepthSeqs(n, func(d0 []int) {
				d := append([]int{}, d0...)
				enum.Tuples(n, len(uni), func(t []int) {
					names := enum.Pick(uni, t)
					f := enum.Build(d, names)
					if !distinctRoots(f) || !c.Take() || c.Expired() {
						return
					}
					c.StateN(1)
					c.Inc("unicode_name_forests")
					for _, ex := range [][]string{nil, {".go"}, {"長"}} {
						c06Case(c, c06Replay{Kind: "c06", Depth: d, Names: names, Exts: ex, Route: "md", Target: "empty"})
						if len(f) == 1 {
							c06Case(c, c06Replay{Kind: "c06", Depth: d, Names: names, Exts: ex, Route: "root", Target: "missing"})
						}
					}
					c06Case(c, c06Replay{Kind: "c06", Depth: d, Names: names, Exts: []string{".go"}, Route: "md", Target: "empty", Pre: map[string]byte{names[0]: 'd'}})
				})
			})
		}
		// many roots (thresholds in the up-front existence check): R roots, exactly one of them exists already, at the
		// first, a middle, and each of the last 12 positions
		rootCounts := []int{41, 50, 63, 64, 65, 67, 70, 99, 100, 101, 128, 129}
		if c.Thorough() {
			rootCounts = nil
			for r := 41; r <= 160; r++ {
				rootCounts = append(rootCounts, r)
			}
		}
		for _, R := range rootCounts {
			if !c.Take() || c.Expired() {
				continue
			}
			var dr []int
			var nr []string
			for i := 0; i < R; i++ {
				dr = append(dr, 1, 2)
				nr = append(nr, fmt.Sprintf("root%03d", i), "k.go")
			}
			c.StateN(1)
			c.Inc("size_family_cases")
			c06Case(c, c06Replay{Kind: "c06", Depth: dr, Names: nr, Exts: []string{".go"}, Route: "md", Target: "empty"})
			pos := []int{0, R / 2}
			for p := R - 12; p < R; p++ {
				pos = append(pos, p)
			}
			for _, p := range pos {
				kind := byte('d')
				if p%2 == 1 {
					kind = 'f'
				}
				c06Case(c, c06Replay{Kind: "c06", Depth: dr, Names: nr, Exts: nil, Route: "md", Target: "empty", Pre: map[string]byte{fmt.Sprintf("root%03d", p): kind}})
			}
		}
		// two things wrong at once: a root exists already AND the tree has a name the OS will refuse (over-long) — the
		// call fails with the path-exists error and nothing changes, as for any tree whose root exists
		for _, route := range []string{"md", "root"} {
			if !c.Take() {
				continue
			}
			long := strings.Repeat("n", 300)
			for _, kind := range []byte{'d', 'f'} {
				j := fsx.NewJail("c06x")
				fsx.Populate(j.Target, map[string]byte{"a": kind})
				before := fsx.Snapshot(j.Root)
				var err error
				pan := sut.Guard(func() {
					if route == "root" {
						err = gtree.MkdirFromRoot(sut.BuildRoot(&model.Node{Name: "a", Kids: []*model.Node{{Name: "b", Kids: []*model.Node{{Name: long}}}}}), gtree.WithTargetDir(j.Target))
					} else {
						err = gtree.MkdirFromMarkdown(strings.NewReader("- z\n  - "+long+"\n- a\n  - b\n"), gtree.WithTargetDir(j.Target))
					}
				})
				c.Eval()
				c.Nontrivial()
				if pan != "" || !errors.Is(err, gtree.ErrExistPath) || !before.Equal(fsx.Snapshot(j.Root)) {
					c.Violation("C06|existing-root-not-reported|with-an-over-long-name-elsewhere", fmt.Sprintf("route=%s existing root as %c: err=%v panic=%q changes=%s", route, kind, err, pan, fsx.Diff(before, fsx.Snapshot(j.Root))), 1, nil)
				}
				j.Remove()
			}
		}
		// paths next to the longest path the OS takes (4095 bytes): a chain of 250-byte names under a RELATIVE target, the
		// deepest path one byte longer from case to case. What counts is the path as the caller spelled it (relative to
		// the working directory): Mkdir succeeds up to 4095 bytes and fails beyond, with and without the massive option,
		// from Markdown and from a root
		for total := 4060; total <= 4100 && !c.Expired(); total++ {
			if !c.Take() {
				continue
			}
			prefix := len("target/")
			var names []string
			used := prefix
			for used+251 < total-1 {
				names = append(names, strings.Repeat("n", 250))
				used += 251
			}
			last := total - used
			if last < 1 || last > 255 {
				continue
			}
			names = append(names, strings.Repeat("z", last))
			var doc strings.Builder
			mroot := &model.Node{Name: names[0]}
			cur := mroot
			for l, nm := range names {
				fmt.Fprintf(&doc, "%s- %s\n", strings.Repeat("  ", l), nm)
				if l > 0 {
					k := &model.Node{Name: nm}
					cur.Kids = append(cur.Kids, k)
					cur = k
				}
			}
			c.StateN(1)
			c.Nontrivial()
			c.Inc("path_length_cases")
			var verdicts []string
			for _, v := range []string{"md", "md+massive", "root", "root+massive"} {
				base, extra, _ := strings.Cut(v, "+")
				j := fsx.NewJail("c06p")
				wd, _ := os.Getwd()
				os.Chdir(filepath.Dir(j.Target))
				opts := append([]gtree.Option{gtree.WithTargetDir("target")}, extraOpts(extra, "")...)
				var err error
				pan := guardMaybeMassive(extra != "", func() {
					if base == "root" {
						err = gtree.MkdirFromRoot(sut.BuildRoot(mroot), opts...)
					} else {
						err = gtree.MkdirFromMarkdown(strings.NewReader(doc.String()), opts...)
					}
				})
				os.Chdir(wd)
				made := len(fsx.Snapshot(j.Target))
				j.Remove()
				c.Eval()
				verdicts = append(verdicts, fmt.Sprintf("%s: ok=%v made=%d panic=%v", v, err == nil, made, pan != ""))
				wantOK := total <= 4095
				if pan != "" || (err == nil) != wantOK || (wantOK && made != len(names)) {
					c.Violation("C06|path-length-limit|"+v, fmt.Sprintf("deepest path of %d bytes (relative target, %d levels): %s err=%v; wanted success=%v with %d directories", total, len(names), verdicts[len(verdicts)-1], err, wantOK, len(names)), total, nil)
				}
			}
		}
		// OS refusals on the real file system: over-long name, target below a regular file
		for _, route := range []string{"md", "root"} {
			if !c.Take() {
				continue
			}
			long := strings.Repeat("n", 300)
			for _, tc := range []struct {
				name   string
				doc    string
				root   *model.Node
				target func(j *fsx.Jail) string
			}{
				{"name-too-long-child", "- a\n  - " + long + "\n", &model.Node{Name: "a", Kids: []*model.Node{{Name: long}}}, func(j *fsx.Jail) string { return j.Target }},
				{"name-too-long-root", "- " + long + "\n", &model.Node{Name: long}, func(j *fsx.Jail) string { return j.Target }},
				{"target-below-regular-file", "- a\n  - b\n", &model.Node{Name: "a", Kids: []*model.Node{{Name: "b"}}}, func(j *fsx.Jail) string { return filepath.Join(j.Root, "sentinel.txt", "sub") }},
				{"component-is-a-file", "- a\n  - b\n    - c\n", &model.Node{Name: "a", Kids: []*model.Node{{Name: "b", Kids: []*model.Node{{Name: "c"}}}}}, func(j *fsx.Jail) string {
					os.Chmod(j.Target, 0o755)
					return j.Target
				}},
			} {
				j := fsx.NewJail("c06r")
				var err error
				target := tc.target(j)
				pan := sut.Guard(func() {
					if route == "root" {
						err = gtree.MkdirFromRoot(sut.BuildRoot(tc.root), gtree.WithTargetDir(target))
					} else {
						err = gtree.MkdirFromMarkdown(strings.NewReader(tc.doc), gtree.WithTargetDir(target))
					}
				})
				c.Eval()
				c.Nontrivial()
				expectErr := tc.name != "component-is-a-file"
				if pan != "" || (expectErr && err == nil) {
					c.Violation("C06|os-refusal-reported-as-success|"+tc.name, fmt.Sprintf("route=%s: err=%v panic=%q", route, err, pan), 1, nil)
				}
				j.Remove()
			}
		}
	}
	replayers["c06"] = func(raw json.RawMessage) bool {
		var r c06Replay
		if json.Unmarshal(raw, &r) != nil {
			return false
		}
		c := rep.New("C06", "replay", "quick", 0, 1, 0, 0)
		c06Case(c, r)
		for k, v := range c.R.ViolEx {
			fmt.Println(k, v[0].Detail)
		}
		return len(c.R.ViolCount) > 0
	}
	_ = sort.Strings
}
