package main

import (
	"bytes"
	"context"
	"fmt"
	"sort"
	"strings"
	"time"

	"github.com/ddddddO/gtree"

	"verifharness/rep"
	"verifharness/sut"
)

// ---- C10 supplementary part "bigdoc": documents far larger than anything the controlled scheduler can explore,
// built so that a root line starts exactly at (or next to) a typical chunk boundary (4 KiB, 32 KiB, 64 KiB, 1 MiB,
// 2 MiB). Massive mode runs free on real goroutines (a few repetitions, GOMAXPROCS as given) and is compared with
// simple mode: same set of root blocks, same error verdict. The schedule is NOT explored here (that is the MC part's
// job); what is enumerated is the alignment of root lines with buffer boundaries. Supplementary: it can only add a
// violation, its silence is not counted as coverage.

func alignedDoc(boundary, shift int, unit string, crlf bool) string {
	nl := "\n"
	if crlf {
		nl = "\r\n"
	}
	var sb strings.Builder
	i := 0
	root := func(pad int) string {
		i++
		return fmt.Sprintf("- r%07d%s", i, strings.Repeat("x", pad)) + nl + unit + fmt.Sprintf("- k%07d", i) + nl
	}
	target := boundary + shift
	base := len(root(0))
	i = 0
	for sb.Len()+2*base+64 < target {
		sb.WriteString(root(0))
	}
	// two more roots, the first padded so that the second starts exactly at target
	pad := target - sb.Len() - base
	if pad < 0 {
		pad = 0
	}
	sb.WriteString(root(pad))
	for k := 0; k < 40; k++ {
		sb.WriteString(root(0))
	}
	return sb.String()
}

func blocksOf(out string) []string {
	var bl []string
	cur := ""
	for _, l := range strings.SplitAfter(out, "\n") {
		if l == "" {
			continue
		}
		if !strings.HasPrefix(l, "├") && !strings.HasPrefix(l, "└") && !strings.HasPrefix(l, "│") && !strings.HasPrefix(l, " ") && cur != "" {
			bl = append(bl, cur)
			cur = ""
		}
		cur += l
	}
	if cur != "" {
		bl = append(bl, cur)
	}
	sort.Strings(bl)
	return bl
}

// stallingWriter: the first write takes 300 ms, every 500th takes 20 ms (a terminal, a slow pipe).
type stallingWriter struct {
	buf bytes.Buffer
	n   int
}

func (w *stallingWriter) Write(p []byte) (int, error) {
	w.n++
	if w.n == 1 {
		time.Sleep(300 * time.Millisecond)
	} else if w.n%500 == 0 {
		time.Sleep(20 * time.Millisecond)
	}
	return w.buf.Write(p)
}

func init() {
	props["C10/bigdoc"] = func(c *rep.Ctx) {
		bounds := []int{4096, 32768, 65536, 1 << 20}
		if c.Thorough() {
			bounds = append(bounds, 2<<20, 4<<20)
		}
		hung := false
		for _, B := range bounds {
			for _, shift := range []int{-1, 0, 1} {
				for vi, v := range []struct {
					unit string
					crlf bool
				}{{"\t", false}, {"  ", true}} {
					if !c.Take() || hung {
						continue
					}
					doc := alignedDoc(B, shift, v.unit, v.crlf)
					want, werr, wpan := sut.Output(doc)
					if wpan != "" || werr != nil {
						continue
					}
					wb := blocksOf(want)
					for rep := 0; rep < 2; rep++ {
						var buf bytes.Buffer
						var err error
						done := make(chan string, 1)
						go func() {
							done <- sut.Guard(func() {
								err = gtree.OutputFromMarkdown(&buf, strings.NewReader(doc), gtree.WithMassive(context.Background()))
							})
						}()
						select {
						case pan := <-done:
							c.Eval()
							gb := blocksOf(buf.String())
							if pan != "" || err != nil || strings.Join(gb, "") != strings.Join(wb, "") {
								missing := ""
								have := map[string]bool{}
								for _, b := range gb {
									have[b] = true
								}
								for _, b := range wb {
									if !have[b] {
										missing = b
										break
									}
								}
								c.Violation("C10|bigdoc|massive-differs-from-simple", fmt.Sprintf("document of %d bytes with a root line starting at offset %d (boundary %d%+d, unit %q, crlf=%v): massive err=%v panic=%q, %d root blocks vs %d in simple mode; first missing block %q", len(doc), B+shift, B, shift, v.unit, v.crlf, err, pan, len(gb), len(wb), missing), B+vi, nil)
							}
						case <-time.After(120 * time.Second):
							hung = true
							c.Violation("C10|bigdoc|massive-call-did-not-return", fmt.Sprintf("document of %d bytes (boundary %d%+d)", len(doc), B, shift), B, nil)
						}
					}
				}
			}
		}
		// many roots against a consumer that stalls (the first write takes 300 ms, then every 500th write 20 ms): every
		// stage of the pipeline fills up behind it; all blocks still arrive, intact, and the call returns nil
		for _, roots := range []int{300, 3000, 12000} {
			if !c.Take() || hung {
				continue
			}
			var sb strings.Builder
			for i := 0; i < roots; i++ {
				fmt.Fprintf(&sb, "- r%06d\n  - k%06d\n  - l\n", i, i)
			}
			doc := sb.String()
			want, _, _ := sut.Output(doc)
			wb := blocksOf(want)
			for _, op := range []string{"text", "dry"} {
				sw := &stallingWriter{}
				var err error
				done := make(chan string, 1)
				go func() {
					done <- sut.Guard(func() {
						opts := []gtree.Option{gtree.WithMassive(context.Background())}
						if op == "dry" {
							opts = append(opts, gtree.WithDryRun())
						}
						err = gtree.OutputFromMarkdown(sw, strings.NewReader(doc), opts...)
					})
				}()
				select {
				case pan := <-done:
					c.Eval()
					got := sw.buf.String()
					okOut := false
					if op == "text" {
						okOut = strings.Join(blocksOf(got), "") == strings.Join(wb, "")
					} else {
						okOut = strings.Count(got, "directories,") == roots && strings.Count(got, "k0") == strings.Count(want, "k0")
					}
					if pan != "" || err != nil || !okOut {
						c.Violation("C10|bigdoc|stalling-writer|"+op, fmt.Sprintf("%d roots, a writer that stalls: massive err=%v panic=%q, %d bytes written (simple mode: %d bytes of text)", roots, err, pan, len(got), len(want)), roots, nil)
					}
				case <-time.After(180 * time.Second):
					hung = true
					c.Violation("C10|bigdoc|massive-call-did-not-return", fmt.Sprintf("%d roots with a stalling writer", roots), roots, nil)
				}
			}
		}
		c.R.States = c.R.Evaluations
		c.Sample(map[string]any{"boundaries": bounds, "shifts": []int{-1, 0, 1}, "spellings": []string{"TAB/LF", "2-space/CRLF"}})
	}
	_ = rep.New
}
