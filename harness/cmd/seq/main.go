// seq: bounded-exhaustive (explicit-state) checks that run the real gtree
// code sequentially on every member of an enumerated space.
package main

import (
	"flag"
	"fmt"
	"os"
	"strings"

	"verifharness/rep"
)

var props = map[string]func(c *rep.Ctx){}

// seqOut is where the shard's result goes (a watchdog that ends the shard early writes it there itself).
var seqOut string

func main() {
	prop := flag.String("prop", "", "property id")
	tier := flag.String("tier", "quick", "quick|thorough")
	shard := flag.Int("shard", 0, "")
	nshards := flag.Int("nshards", 1, "")
	out := flag.String("out", "-", "")
	seed := flag.Int64("seed", 0, "")
	deadline := flag.Int("deadline", 0, "seconds; 0 = none")
	replay := flag.String("replay", "", "replay file")
	part := flag.String("part", "", "named part of a property (key prop/part)")
	flag.Parse()
	if *part != "" {
		*prop = *prop + "/" + *part
	}
	if *replay != "" {
		os.Exit(doReplay(*replay))
	}
	f, ok := props[*prop]
	if !ok {
		fmt.Fprintln(os.Stderr, "unknown property", *prop)
		os.Exit(3)
	}
	pid := *prop
	if i := strings.Index(pid, "/"); i >= 0 {
		pid = pid[:i]
	}
	c := rep.New(pid, "seq", *tier, *shard, *nshards, *seed, *deadline)
	seqOut = *out
	f(c)
	if err := c.Write(*out); err != nil {
		fmt.Fprintln(os.Stderr, err)
		os.Exit(3)
	}
}
