package main

import (
	"bytes"
	"encoding/json"
	"fmt"
	"io"
	"path/filepath"
	"regexp"
	"strings"

	"github.com/ddddddO/gtree"
	"github.com/fatih/color"

	"verifharness/enum"
	"verifharness/fsx"
	"verifharness/model"
	"verifharness/rep"
	"verifharness/sut"
)

// ---- C09: dry run touches nothing and predicts the real run

type c09Replay struct {
	MissingTarget bool     `json:"missing_target,omitempty"` // WithTargetDir names a directory that does not exist yet
	Kind          string   `json:"kind"`
	Depth         []int    `json:"depth"`
	Names         []string `json:"names"`
	Exts          []string `json:"exts"`
	Route         string   `json:"route"` // output-dry | mkdir-md-dry | mkdir-root-dry
	Extra         string   `json:"extra_options,omitempty"`
	Gaps          bool     `json:"blank_lines_between_all_lines,omitempty"` // the Markdown routes get the document with a blank line after every line
	AfterFault    bool     `json:"after_a_failed_write,omitempty"`          // the same call was made just before with a writer that took half of the report
	Color         bool     `json:"color,omitempty"`                         // colours switched on (a terminal): the report is judged with the SGR sequences removed
}

var sgr = regexp.MustCompile("\x1b\\[[0-9;]*m")

// options that do not concern a Mkdir dry run
var c09Extras = []string{"json", "yaml", "toml", "noiter", "strict", "nil", "strict,toml,nil"}

// c09Dest, when set, takes the place of the buffer the report is written to (a writer that fails, for the call made
// BEFORE the one that is judged)
var c09Dest io.Writer

func c09Dry(route, doc string, root *model.Node, exts []string, target string, extra ...string) (out string, err error, pan string) {
	var bbuf bytes.Buffer
	var buf io.Writer = &bbuf
	if c09Dest != nil {
		buf = c09Dest
	}
	opts := []gtree.Option{gtree.WithDryRun(), gtree.WithFileExtensions(exts), gtree.WithTargetDir(target)}
	if len(extra) > 0 {
		opts = append(opts, extraOpts(extra[0], "")...)
	}
	pan = sut.Guard(func() {
		switch route {
		case "output-dry":
			err = gtree.OutputFromMarkdown(buf, strings.NewReader(doc), opts...)
		case "output-dry-alias":
			err = gtree.Output(buf, strings.NewReader(doc), opts...)
		case "mkdir-md-dry-alias":
			old := color.Output
			color.Output = buf
			err = gtree.Mkdir(strings.NewReader(doc), opts...)
			color.Output = old
		case "mkdir-root-dry-alias":
			old := color.Output
			color.Output = buf
			err = gtree.MkdirProgrammably(sut.BuildRoot(root), opts...)
			color.Output = old
		case "mkdir-md-dry":
			old := color.Output
			color.Output = buf
			err = gtree.MkdirFromMarkdown(strings.NewReader(doc), opts...)
			color.Output = old
		case "mkdir-root-dry":
			old := color.Output
			color.Output = buf
			err = gtree.MkdirFromRoot(sut.BuildRoot(root), opts...)
			color.Output = old
		}
	})
	return bbuf.String(), err, pan
}

func c09Case(c *rep.Ctx, r c09Replay) {
	f := enum.Build(r.Depth, r.Names)
	m := model.Merge(f)
	doc := enum.Spell(r.Depth, r.Names, enum.Canonical)
	if r.Gaps {
		g := make([]int, len(r.Depth)+1)
		for i := range g {
			g[i] = 1 + i%2
		}
		doc = enum.Spell(r.Depth, r.Names, enum.Spelling{Unit: "  ", Bullets: []byte("-"), Gaps: g})
	}
	j := fsx.NewJail("c09")
	defer j.Remove()
	target := j.Target
	if r.MissingTarget {
		target = filepath.Join(j.Target, "not", "yet", "there")
	}
	before := fsx.Snapshot(j.Root)
	var root *model.Node
	if strings.HasPrefix(r.Route, "mkdir-root-dry") {
		root = f[0]
	}
	extsGiven := append([]string{}, r.Exts...)
	if r.AfterFault {
		c09Dest = &failWriter{failAt: 1, short: true}
		c09Dry(r.Route, doc, root, r.Exts, target, r.Extra)
		c09Dest = nil
	}
	if r.Color {
		color.NoColor = false
	}
	out, err, pan := c09Dry(r.Route, doc, root, r.Exts, target, r.Extra)
	if r.Color {
		color.NoColor = true
		if err == nil && len(f) > 0 && !strings.Contains(out, "\x1b[") {
			c.Inc("colour_cases_without_any_colour")
		}
		out = sgr.ReplaceAllString(out, "")
	}
	after := fsx.Snapshot(j.Root)
	c.Eval()
	c.Trans(1)
	size := len(r.Depth)*100 + len(strings.Join(r.Names, "")) + len(r.Exts)
	desc := fmt.Sprintf("route=%s doc=%q exts=%q missingTarget=%v", r.Route, doc, extsGiven, r.MissingTarget)
	if r.Extra != "" {
		desc += " extra options=" + r.Extra
	}
	if strings.Join(extsGiven, "\x00") != strings.Join(r.Exts, "\x00") {
		c.Violation("C09|callers-extension-list-modified|"+r.Route, fmt.Sprintf("%s: the list passed to WithFileExtensions is %q after the call", desc, r.Exts), size, r)
		r.Exts = extsGiven
	}
	if pan != "" {
		c.Violation("C09|panic|"+r.Route, desc+": "+pan, size, r)
		return
	}
	if !after.Equal(before) {
		c.Violation("C09|dry-run-changed-fs|"+r.Route, fmt.Sprintf("%s: %s", desc, fsx.Diff(before, after)), size, r)
	}
	// the real run, in a fresh empty jail: does it reject (only names can be the reason there), and what does it create per root?
	j2 := fsx.NewJail("c09r")
	defer j2.Remove()
	var rerr error
	realTarget := j2.Target
	if r.MissingTarget {
		// the real run gets the same kind of target the dry run was given: a directory that does not exist yet
		realTarget = filepath.Join(j2.Target, "not", "yet", "there")
	}
	// (a dry run with the massive option predicts the real run with the massive option)
	var realExtra []gtree.Option
	if strings.Contains(r.Extra, "massive") {
		realExtra = extraOpts("massive", "")
	}
	rpan := guardMaybeMassive(realExtra != nil, func() {
		if strings.HasPrefix(r.Route, "mkdir-root-dry") {
			rerr = gtree.MkdirFromRoot(sut.BuildRoot(f[0]), append([]gtree.Option{gtree.WithFileExtensions(r.Exts), gtree.WithTargetDir(realTarget)}, realExtra...)...)
		} else {
			rerr = gtree.MkdirFromMarkdown(strings.NewReader(doc), append([]gtree.Option{gtree.WithFileExtensions(r.Exts), gtree.WithTargetDir(realTarget)}, realExtra...)...)
		}
	})
	if rpan != "" {
		return // C06/C12's business
	}
	if (err != nil) != (rerr != nil) {
		c.Violation(fmt.Sprintf("C09|reject-mismatch|dry=%s real=%s|%s", errClass(err), errClass(rerr), r.Route), fmt.Sprintf("%s: dry run err=%v, real run err=%v", desc, err, rerr), size, r)
		return
	}
	if err != nil {
		return
	}
	// report = per root: plain lines, blank line, "D directories, F files"
	plain, perr, _ := sut.Output(doc)
	if perr != nil {
		return
	}
	_ = plain
	real := fsx.Snapshot(realTarget).Kinds()
	want := ""
	for _, rt := range m {
		d, fl := 0, 0
		for _, p := range model.Paths(rt) {
			switch real[p] {
			case 'd':
				d++
			case 'f':
				fl++
			}
		}
		md, mf := model.Counts(rt, r.Exts)
		if len(m) == 1 || distinctRoots(m) {
			if md != d || mf != fl {
				c.Violation("C09|model-counts-differ-from-real-mkdir", fmt.Sprintf("%s: root %q real mkdir made %d dirs %d files, model says %d/%d", desc, rt.Name, d, fl, md, mf), size, r)
			}
		}
		want += model.RenderRoot(rt, model.DefaultFmt) + fmt.Sprintf("\n%d directories, %d files\n", md, mf)
	}
	if model.NormSummary(out) != model.NormSummary(want) {
		c.Violation("C09|wrong-report|"+r.Route, fmt.Sprintf("%s:\n got %q\nwant %q", desc, out, want), size, r)
	}
}

func errClass(err error) string {
	if err == nil {
		return "nil"
	}
	return "err"
}

func init() {
	props["C09"] = func(c *rep.Ctx) {
		maxN, maxH := 4, 2
		if c.Thorough() {
			maxN, maxH = 5, 3
		}
		c.Bound("nodes", fmt.Sprint(maxN))
		c.Bound("nodes_hostile", fmt.Sprint(maxH))
		routes := []string{"output-dry", "mkdir-md-dry", "mkdir-root-dry"}
		run := func(d []int, names []string, extsList [][]string) {
			roots := 0
			for _, x := range d {
				if x == 1 {
					roots++
				}
			}
			for _, ex := range extsList {
				for _, rt := range routes {
					if rt == "mkdir-root-dry" && roots != 1 {
						continue
					}
					c09Case(c, c09Replay{Kind: "c09", Depth: append([]int{}, d...), Names: names, Exts: ex, Route: rt})
					if len(d) <= 3 {
						c09Case(c, c09Replay{Kind: "c09", Depth: append([]int{}, d...), Names: names, Exts: ex, Route: rt, MissingTarget: true})
					}
					if len(d) <= 3 {
						c09Case(c, c09Replay{Kind: "c09", Depth: append([]int{}, d...), Names: names, Exts: ex, Route: rt, Color: true})
						c09Case(c, c09Replay{Kind: "c09", Depth: append([]int{}, d...), Names: names, Exts: ex, Route: rt + "-alias"})
						c09Case(c, c09Replay{Kind: "c09", Depth: append([]int{}, d...), Names: names, Exts: ex, Route: rt, AfterFault: true})
						if rt != "mkdir-root-dry" {
							c09Case(c, c09Replay{Kind: "c09", Depth: append([]int{}, d...), Names: names, Exts: ex, Route: rt, Gaps: true})
						}
					}
					if len(d) <= 2 && rt != "output-dry" {
						for _, x := range c09Extras {
							c09Case(c, c09Replay{Kind: "c09", Depth: append([]int{}, d...), Names: names, Exts: ex, Route: rt, Extra: x})
						}
					}
				}
			}
		}
		for n := 1; n <= maxN && !c.Expired(); n++ {
			enum.DepthSeqs(n, func(d []int) {
				enum.Tuples(n, len(c06Names), func(t []int) {
					names := enum.Pick(c06Names, t)
					if !distinctRoots(enum.Build(d, names)) {
						return
					}
					if !c.Take() || c.Expired() {
						return
					}
					c.StateN(1)
					c.Trace()
					if c.R.States%2000 == 1 {
						c.Sample(map[string]any{"doc": enum.Spell(d, names, enum.Canonical), "exts": c06Exts})
					}
					ex := c06Exts
					if n >= 4 {
						ex = c06Exts[:4]
					} else {
						ex = append(append([][]string{}, ex...), c06DupExts...)
					}
					run(d, names, ex)
				})
			})
		}
		// size families: wide fan-out with files and directories, deep chain, many roots
		for size := 1; size <= 40 && !c.Expired(); size++ {
			if !c.Take() {
				continue
			}
			var dw, dc, dr []int
			var nw, nc, nr []string
			dw, nw = append(dw, 1), append(nw, "wide")
			for i := 0; i < size; i++ {
				dw = append(dw, 2)
				if i%2 == 1 {
					nw = append(nw, fmt.Sprintf("f%02d.go", i))
				} else {
					nw = append(nw, fmt.Sprintf("d%02d", i))
				}
				dc = append(dc, i+1)
				nc = append(nc, fmt.Sprintf("n%02d", i))
				dr = append(dr, 1, 2)
				nr = append(nr, fmt.Sprintf("root%02d", i), "k.go")
			}
			c.StateN(3)
			run(dw, nw, [][]string{{".go"}})
			run(dc, nc, [][]string{nil})
			run(dr, nr, [][]string{{".go"}})
		}
		// extension lists with entries a command line easily produces (a blank before or after an entry, an empty entry,
		// an entry without the dot, the same entry in two spellings): an entry is a suffix, taken literally, by the dry
		// run exactly as by the real run; single roots, simple and with the massive option
		padded := [][]string{{" .md"}, {".go", " .md"}, {".md "}, {"\t.go"}, {""}, {".go", ""}, {"md"}, {".MD"}, {".md", ".MD"}, {". md"}}
		for n := 1; n <= 3 && !c.Expired(); n++ {
			enum.DepthSeqs(n, func(d []int) {
				if n > 1 && d[len(d)-1] == 1 {
					return
				}
				for _, x := range d[1:] {
					if x == 1 {
						return
					}
				}
				enum.Tuples(n, 4, func(t []int) {
					if !c.Take() || c.Expired() {
						return
					}
					names := enum.Pick([]string{"a", "README.md", "b.go", "x.MD"}, t)
					c.StateN(1)
					c.Nontrivial()
					c.Inc("padded_extension_cases")
					for _, ex := range padded {
						for _, rt := range routes {
							for _, extra := range []string{"", "massive", "massive-nil"} {
								c09Case(c, c09Replay{Kind: "c09", Depth: append([]int{}, d...), Names: names, Exts: ex, Route: rt, Extra: extra})
							}
						}
					}
				})
			})
		}
		// the size sweep (enum/size.go): every width and depth up to the bound, children of the wide parent carry an extension
		{
			upTo, far, deepTo, deepFar := 140, 1030, 130, 260 // (file-system work per case)
			if c.Thorough() {
				upTo, far, deepTo, deepFar = 1100, 2100, 300, 520
			}
			c.Bound("size_sweep_width_every_integer_up_to", fmt.Sprint(upTo))
			c.Bound("size_sweep_depth_every_integer_up_to", fmt.Sprint(deepTo))
			c.Bound("size_sweep_depth_power_of_two_neighbours_up_to", fmt.Sprint(deepFar))
			sweep := func(s enum.SizeShape) {
				if !c.Take() || c.Expired() {
					return
				}
				f := enum.Build(s.D, s.Names)
				if !distinctRoots(f) {
					return
				}
				for _, nm := range s.Names {
					if strings.ContainsAny(nm, "/") {
						return
					}
				}
				withExt := make([]string, len(s.Names))
				for i, nm := range s.Names {
					withExt[i] = nm
					if strings.HasPrefix(nm, "c0") || strings.HasPrefix(nm, "c1") || nm == "bk" || strings.HasPrefix(nm, "t") {
						withExt[i] = nm + ".go"
					}
				}
				c.StateN(1)
				c.Nontrivial()
				c.Inc("size_sweep_cases")
				rts := routes
				if len(f) != 1 {
					rts = routes[:2]
				}
				extra := ""
				if len(f) == 1 && s.Size%3 == 1 {
					extra = "massive"
				}
				c09Case(c, c09Replay{Kind: "c09", Depth: s.D, Names: withExt, Exts: []string{".go"}, Route: rts[s.Size%len(rts)], Extra: extra})
				c09Case(c, c09Replay{Kind: "c09", Depth: s.D, Names: s.Names, Exts: nil, Route: rts[(s.Size+1)%len(rts)]})
			}
			enum.DeepShapes(enum.Sizes(deepTo, deepFar), sweep)
			enum.WideShapes(enum.Sizes(upTo, far), sweep)
			enum.TwinShapes(sweep)
		}
		// names with format verbs and other printable oddities (the report is assembled with fmt)
		verbs := []string{"x", "100%d", "a%%b", "%s", "%!v", "{}"}
		for n := 1; n <= 3 && !c.Expired(); n++ {
			enum.DepthSeqs(n, func(d []int) {
				enum.Tuples(n, len(verbs), func(t []int) {
					if !c.Take() || c.Expired() {
						return
					}
					names := enum.Pick(verbs, t)
					if !distinctRoots(enum.Build(d, names)) {
						return
					}
					c.StateN(1)
					c.Nontrivial()
					run(d, names, [][]string{nil, {"d"}})
				})
			})
		}
		for n := 1; n <= maxH && !c.Expired(); n++ {
			enum.DepthSeqs(n, func(d []int) {
				enum.Tuples(n, len(c07Names), func(t []int) {
					if !c.Take() || c.Expired() {
						return
					}
					names := enum.Pick(c07Names, t)
					if !distinctRoots(enum.Build(d, names)) {
						return
					}
					c.StateN(1)
					c.Nontrivial()
					run(d, names, [][]string{nil, {"x"}})
				})
			})
		}
	}
	replayers["c09"] = func(raw json.RawMessage) bool {
		var r c09Replay
		if json.Unmarshal(raw, &r) != nil {
			return false
		}
		c := rep.New("C09", "replay", "quick", 0, 1, 0, 0)
		c09Case(c, r)
		for k, v := range c.R.ViolEx {
			fmt.Println(k, v[0].Detail)
		}
		return len(c.R.ViolCount) > 0
	}
}
