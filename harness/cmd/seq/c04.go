package main

import (
	"bytes"
	"encoding/json"
	"fmt"
	"io"
	"sort"
	"strings"

	"github.com/ddddddO/gtree"
	toml "github.com/pelletier/go-toml/v2"
	"gopkg.in/yaml.v3"

	"verifharness/enum"
	"verifharness/model"
	"verifharness/rep"
	"verifharness/sut"
)

// ---- C04: JSON / YAML / TOML outputs parse under standard decoders into the input tree

type decNode struct {
	Value    string     `json:"value" yaml:"value" toml:"value"`
	Children []*decNode `json:"children" yaml:"children" toml:"children"`
}

func (d *decNode) toModel() *model.Node {
	n := &model.Node{Name: d.Value}
	for _, k := range d.Children {
		n.Kids = append(n.Kids, k.toModel())
	}
	return n
}

// decode parses the output of one encoding into a forest; strict about trailing garbage.
func decode(enc, out string) (model.Forest, error) {
	var f model.Forest
	switch enc {
	case "json":
		lines := strings.Split(out, "\n")
		if len(lines) > 0 && lines[len(lines)-1] == "" {
			lines = lines[:len(lines)-1]
		}
		for i, l := range lines {
			dec := json.NewDecoder(strings.NewReader(l))
			dec.DisallowUnknownFields()
			var n decNode
			if err := dec.Decode(&n); err != nil {
				return nil, fmt.Errorf("line %d: %w", i+1, err)
			}
			if dec.More() {
				return nil, fmt.Errorf("line %d: more than one JSON value on a line", i+1)
			}
			f = append(f, n.toModel())
		}
	case "yaml":
		dec := yaml.NewDecoder(strings.NewReader(out))
		dec.KnownFields(true)
		for {
			var n decNode
			err := dec.Decode(&n)
			if err == io.EOF {
				break
			}
			if err != nil {
				return nil, err
			}
			f = append(f, n.toModel())
		}
	case "toml":
		dec := toml.NewDecoder(strings.NewReader(out))
		dec.DisallowUnknownFields()
		var n decNode
		if err := dec.Decode(&n); err != nil {
			return nil, err
		}
		f = append(f, n.toModel())
	}
	return f, nil
}

func encOpt(enc string) gtree.Option {
	switch enc {
	case "json":
		return gtree.WithEncodeJSON()
	case "yaml":
		return gtree.WithEncodeYAML()
	}
	return gtree.WithEncodeTOML()
}

var c04Hostile = []string{`"`, `'`, `a: b`, `#c`, `\`, "\x01", "\x7f", "a\tb", `é`, `日本`, `- x`, `[x]`, `{y}`, `~`, `null`, `true`, `1e3`, `yes`, ` lead`, `trail `, `a"b'c`, `\n`, `<&>`, `%s`, `=`, `a = "b"`, `C#`, `x ##`, "\tq"}

type c04Replay struct {
	Kind  string   `json:"kind"`
	Depth []int    `json:"depth"`
	Names []string `json:"names"`
	Enc   string   `json:"enc"`
	Route string   `json:"route"`
}

func c04Judge(c *rep.Ctx, d []int, names []string, enc, route string) {
	f := enum.Build(d, names)
	want := model.Merge(f)
	var out string
	var err error
	var pan string
	// routes: md | root, optionally followed by "+<variant>": noiter (the benchmark switch), alias (the deprecated
	// entry point), massive (roots may come in any order), plus / star-tab (other spellings of the same list),
	// opts (options that do not concern the encoders)
	base, variant, _ := strings.Cut(route, "+")
	opts := []gtree.Option{encOpt(enc)}
	sp := enum.Canonical
	switch variant {
	case "noiter":
		opts = append(opts, gtree.WithNoUseIterOfSimpleOutput())
	case "massive":
		opts = append(opts, extraOpts("massive", "")...)
	case "plus":
		sp = enum.Spelling{Unit: "    ", Bullets: []byte("+")}
	case "plus-massive":
		sp = enum.Spelling{Unit: "  ", Bullets: []byte("+*")}
		opts = append(opts, extraOpts("massive-nil", "")...)
	case "star-tab":
		sp = enum.Spelling{Unit: "\t", Bullets: []byte("*-")}
	case "heading":
		sp = enum.Spelling{Unit: "  ", Bullets: []byte("-"), Heading: true}
	case "compact":
		sp = enum.Spelling{Unit: "  ", Bullets: []byte("-*"), Compact: true}
	case "mixed-roots":
		sp = enum.Spelling{Unit: "  ", Bullets: []byte("-"), Heading: true, ListRootsFirst: 1}
	case "compact-dash":
		sp = enum.Spelling{Unit: "  ", Bullets: []byte("-"), Compact: true}
	case "compact-star":
		sp = enum.Spelling{Unit: "\t", Bullets: []byte("*"), Compact: true}
	case "compact-plus":
		sp = enum.Spelling{Unit: "    ", Bullets: []byte("+"), Compact: true}
	case "opts":
		opts = append(extraOpts("fmt,exts,nil,strict", ""), append(opts, extraOpts("target,nil", "/nonexistent/never/used")...)...)
	}
	var buf bytes.Buffer
	pan = guardMaybeMassive(strings.Contains(variant, "massive"), func() {
		switch {
		case base == "md" && variant == "alias":
			err = gtree.Output(&buf, strings.NewReader(enum.Spell(d, names, sp)), opts...)
		case base == "md":
			err = gtree.OutputFromMarkdown(&buf, strings.NewReader(enum.Spell(d, names, sp)), opts...)
		case variant == "alias":
			err = gtree.OutputProgrammably(&buf, sut.BuildRoot(f[0]), opts...)
		default:
			err = gtree.OutputFromRoot(&buf, sut.BuildRoot(f[0]), opts...)
		}
	})
	out = buf.String()
	c.Eval()
	c.Trans(len(d))
	rp := c04Replay{"c04", append([]int{}, d...), names, enc, route}
	size := len(d)*100 + len(strings.Join(names, ""))
	tag := enc + "|" + route
	if pan != "" {
		c.Violation("C04|panic|"+tag, fmt.Sprintf("names=%q depth=%v: %s", names, d, pan), size, rp)
		return
	}
	if err != nil {
		c.Violation("C04|encode-error|"+tag, fmt.Sprintf("names=%q depth=%v: %v", names, d, err), size, rp)
		return
	}
	got, derr := decode(enc, out)
	if derr != nil {
		c.Violation("C04|not-wellformed|"+tag, fmt.Sprintf("names=%q depth=%v: output %q does not parse: %v", names, d, out, derr), size, rp)
		return
	}
	if strings.Contains(variant, "massive") {
		// the massive option may emit the roots in any order: compare as multisets of roots
		sortForest(got)
		want = want.Clone()
		sortForest(want)
	}
	if !model.Equal(got, want) {
		c.Violation("C04|not-isomorphic|"+tag, fmt.Sprintf("names=%q depth=%v: output %q decodes to %s, tree is %s", names, d, out, model.Key(got), model.Key(want)), size, rp)
	}
}

func sortForest(f model.Forest) {
	sort.SliceStable(f, func(i, j int) bool { return model.Key(model.Forest{f[i]}) < model.Key(model.Forest{f[j]}) })
}

var c04Variants = []string{"noiter", "alias", "massive", "plus", "plus-massive", "star-tab", "opts", "heading", "mixed-roots", "compact"}

func init() {
	props["C04"] = func(c *rep.Ctx) {
		maxN, maxH := 7, 3
		if c.Thorough() {
			maxN, maxH = 9, 3
		}
		c.Bound("nodes_ab", fmt.Sprint(maxN))
		c.Bound("nodes_hostile", fmt.Sprint(maxH))
		c.Bound("hostile_names", fmt.Sprint(len(c04Hostile)+2))
		do := func(d []int, names []string, rootOnlyNames bool) {
			roots := 0
			for _, x := range d {
				if x == 1 {
					roots++
				}
			}
			for _, enc := range []string{"json", "yaml", "toml"} {
				if enc == "toml" && roots != 1 {
					continue
				}
				if !rootOnlyNames {
					c04Judge(c, d, names, enc, "md")
				}
				if roots == 1 {
					c04Judge(c, d, names, enc, "root")
				}
				if len(d) <= 5 || len(d) > 9 {
					for _, v := range c04Variants {
						if (v == "plus" || v == "plus-massive" || v == "star-tab") && (rootOnlyNames || len(names[0]) != 1 || strings.TrimSpace(strings.Join(names, "")) == "") {
							continue // other spellings: for the plain alphabets only
						}
						if v == "mixed-roots" && roots < 2 {
							continue
						}
						if v == "compact" {
							// "-name": for names that do not begin with a blank (that blank would be taken for the separator)
							// nor with a character that changes what the row is
							ok := !rootOnlyNames
							for _, nm := range names {
								if nm == "" || strings.HasPrefix(nm, " ") || strings.ContainsAny(nm[:1], "-*+#") {
									ok = false
								}
							}
							if !ok {
								continue
							}
						}
						if v == "heading" || v == "mixed-roots" {
							// roots written as "# name": for names a heading can carry (it trims blanks; a leading # is markup)
							ok := !rootOnlyNames
							for i, nm := range names {
								if d[i] == 1 && (nm != strings.TrimSpace(nm) || nm == "" || strings.HasPrefix(nm, "#") || strings.ContainsAny(nm, "\x01\x7f\t")) {
									ok = false
								}
							}
							if !ok {
								continue
							}
						}
						if !rootOnlyNames {
							c04Judge(c, d, names, enc, "md+"+v)
						}
						if roots == 1 && !strings.HasPrefix(v, "plus") && v != "star-tab" && v != "heading" && v != "mixed-roots" && v != "compact" {
							c04Judge(c, d, names, enc, "root+"+v)
						}
					}
				}
			}
		}
		for n := 1; n <= maxN && !c.Expired(); n++ {
			enum.DepthSeqs(n, func(d []int) {
				enum.Tuples(n, 2, func(t []int) {
					if !c.Take() || c.Expired() {
						return
					}
					names := enum.Pick([]string{"a", "b"}, t)
					c.StateN(1)
					c.Trace()
					do(d, names, false)
				})
			})
		}
		// size families: deep chains, wide fan-out, many roots
		for size := 1; size <= 60 && !c.Expired(); size++ {
			if !c.Take() {
				continue
			}
			var dc, dw, dr []int
			var nc, nw, nr []string
			for l := 1; l <= size; l++ {
				dc = append(dc, l)
				nc = append(nc, fmt.Sprintf("n%d", l))
			}
			dw, nw = append(dw, 1), append(nw, "r")
			for i := 0; i < size; i++ {
				dw = append(dw, 2)
				nw = append(nw, fmt.Sprintf("c%02d", i))
				dr = append(dr, 1, 2)
				nr = append(nr, fmt.Sprintf("root%02d", i), "k")
			}
			c.StateN(3)
			c.Inc("size_family_cases")
			do(dc, nc, false)
			do(dw, nw, false)
			do(dr, nr, false)
		}
		// wide parents with a repeated sibling: k distinct children, then child i written again with a child of its own
		// (it must merge into the i-th), for every k around the small thresholds and every i
		for _, k := range []int{7, 8, 9, 10, 11, 16, 17, 32, 33, 34, 35, 64, 65} {
			for i := 0; i < k; i++ {
				if !c.Take() || c.Expired() {
					continue
				}
				d, nm := []int{1}, []string{"r"}
				for j := 0; j < k; j++ {
					d = append(d, 2)
					nm = append(nm, fmt.Sprintf("c%02d", j))
				}
				d = append(d, 2, 3, 2)
				nm = append(nm, fmt.Sprintf("c%02d", i), "g", "tail")
				c.StateN(1)
				c.Nontrivial()
				c.Inc("size_family_cases")
				c04Judge(c, d, nm, "json", "md")
				c04Judge(c, d, nm, "yaml", "root")
				c04Judge(c, d, nm, "toml", "md+massive")
			}
		}
		// documents larger than the usual I/O buffers (2, 4, 12 and 64 KiB), From-Markdown: names must come out as written
		for _, total := range []int{150, 300, 900, 4500} {
			if !c.Take() || c.Expired() {
				continue
			}
			var d []int
			var nm []string
			for i := 0; i < total/3; i++ {
				d = append(d, 1, 2, 3)
				nm = append(nm, fmt.Sprintf("root%05d", i), fmt.Sprintf("kid%05d", i), fmt.Sprintf("leaf%05d", i))
			}
			c.StateN(1)
			c.Inc("size_family_cases")
			for _, enc := range []string{"json", "yaml"} {
				c04Judge(c, d, nm, enc, "md")
				c04Judge(c, d, nm, enc, "md+noiter")
				c04Judge(c, d, nm, enc, "md+massive")
			}
		}
		// names made of the marker characters, written without the blank after the bullet ("---" is the item "--", "****"
		// the item "***"): every forest of up to three nodes over such names, the three bullets; a spelling is used only
		// when the specification parser reads it back as the intended forest
		markers := []string{"--", "***", "++", "-", "- -", "**", "--x", "a", "___"}
		for n := 1; n <= 3 && !c.Expired(); n++ {
			enum.DepthSeqs(n, func(d []int) {
				enum.Tuples(n, len(markers), func(t []int) {
					if !c.Take() || c.Expired() {
						return
					}
					names := enum.Pick(markers, t)
					roots := 0
					for _, x := range d {
						if x == 1 {
							roots++
						}
					}
					for _, v := range []string{"compact-dash", "compact-star", "compact-plus"} {
						spl := map[string]enum.Spelling{"compact-dash": {Unit: "  ", Bullets: []byte("-"), Compact: true}, "compact-star": {Unit: "\t", Bullets: []byte("*"), Compact: true}, "compact-plus": {Unit: "    ", Bullets: []byte("+"), Compact: true}}[v]
						sp := model.ParseSpec(enum.Spell(d, names, spl))
						if sp.Verdict != model.WellFormed || !model.Equal(sp.Forest, enum.Build(d, names)) {
							continue
						}
						c.StateN(1)
						c.Nontrivial()
						c.Inc("marker_name_cases")
						for _, enc := range []string{"json", "yaml", "toml"} {
							if enc == "toml" && roots != 1 {
								continue
							}
							c04Judge(c, d, names, enc, "md+"+v)
						}
					}
				})
			})
		}
		// the size sweep (enum/size.go) and the fingerprint twins (enum/twins.go), both routes
		upTo, far, deepTo, deepFar := 300, 1030, 130, 260
		if c.Thorough() {
			upTo, far, deepTo, deepFar = 1100, 2100, 300, 520
		}
		c.Bound("size_sweep_width_every_integer_up_to", fmt.Sprint(upTo))
		c.Bound("size_sweep_depth_every_integer_up_to", fmt.Sprint(deepTo))
		c.Bound("size_sweep_depth_power_of_two_neighbours_up_to", fmt.Sprint(deepFar))
		sweep := func(s enum.SizeShape) {
			if !c.Take() || c.Expired() {
				return
			}
			roots := 0
			for _, x := range s.D {
				if x == 1 {
					roots++
				}
			}
			c.StateN(1)
			c.Nontrivial()
			c.Inc("size_sweep_cases")
			encs := []string{"json", "yaml", "toml"}
			if roots != 1 {
				encs = encs[:2]
			}
			enc := encs[s.Size%len(encs)]
			c04Judge(c, s.D, s.Names, enc, "md")
			if roots == 1 {
				c04Judge(c, s.D, s.Names, encs[(s.Size+1)%len(encs)], "root")
			}
			if strings.HasPrefix(s.Tag, "twins") {
				for _, e := range encs {
					c04Judge(c, s.D, s.Names, e, "md")
					c04Judge(c, s.D, s.Names, e, "md+massive")
					if roots == 1 {
						c04Judge(c, s.D, s.Names, e, "root")
					}
				}
			}
		}
		enum.DeepShapes(enum.Sizes(deepTo, deepFar), sweep)
		enum.WideShapes(enum.Sizes(upTo, far), sweep)
		enum.TwinShapes(sweep)
		// hostile names; From-Root additionally gets names Markdown cannot spell (empty, multi-line)
		rootOnly := []string{"", "a\nb", " a\nb", "\na", "\ta\nb", "\n", "a\r\nb ", " \n", "\u2028\nb", "\u2029\n#", "\u0085\nb"}
		all := append(append([]string{}, c04Hostile...), rootOnly...)
		for n := 1; n <= maxH && !c.Expired(); n++ {
			enum.DepthSeqs(n, func(d []int) {
				enum.Tuples(n, len(all), func(t []int) {
					if !c.Take() || c.Expired() {
						return
					}
					names := enum.Pick(all, t)
					ro := false
					for _, x := range t {
						if x >= len(c04Hostile) {
							ro = true
						}
					}
					c.StateN(1)
					c.Nontrivial()
					c.Trace()
					if c.R.States%500 == 1 {
						c.Sample(map[string]any{"depth": append([]int{}, d...), "names": names})
					}
					do(d, names, ro)
				})
			})
		}
	}
	replayers["c04"] = func(raw json.RawMessage) bool {
		var r c04Replay
		if json.Unmarshal(raw, &r) != nil {
			return false
		}
		c := rep.New("C04", "replay", "quick", 0, 1, 0, 0)
		c04Judge(c, r.Depth, r.Names, r.Enc, r.Route)
		for k, v := range c.R.ViolEx {
			fmt.Println(k, v[0].Detail)
		}
		return len(c.R.ViolCount) > 0
	}
}
