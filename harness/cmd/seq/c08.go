package main

import (
	"encoding/json"
	"fmt"
	"os"
	"path/filepath"
	"sort"
	"strings"

	"github.com/ddddddO/gtree"

	"verifharness/enum"
	"verifharness/fsx"
	"verifharness/model"
	"verifharness/rep"
	"verifharness/sut"
)

// ---- C08: verify reports exactly the differences between the tree and the directory

type c08Replay struct {
	Kind    string          `json:"kind"`
	Depth   []int           `json:"depth"`
	Names   []string        `json:"names"`
	State   map[string]byte `json:"state"`
	Strict  bool            `json:"strict"`
	Form    string          `json:"target_form"` // abs | rel | slash
	Route   string          `json:"route"`
	MkDepth []int           `json:"mk_depth,omitempty"` // Mkdir(A) -> Verify(B) histories: tree A
	MkNames []string        `json:"mk_names,omitempty"`
	MkExts  []string        `json:"mk_exts,omitempty"`
	Extra   string          `json:"extra_options,omitempty"`
	// MkSame: the Mkdir step is given the very same target option(s) as the Verify step (whatever their spelling),
	// plus MkExtra (e.g. the massive option)
	MkSame  bool   `json:"mk_same_target_options,omitempty"`
	MkExtra string `json:"mk_extra_options,omitempty"`
}

// options that do not concern Verify (the massive option only changes how it is done)
var c08Extras = []string{"json", "yaml", "toml", "noiter", "fmt", "exts", "nil", "massive", "nil,toml,exts", "massive-nil,json", "dry", "dry,massive"}

// parseVerifyErr extracts the two documented lists, relative to target.
func parseVerifyErr(msg, target string) (extra, missing []string, ok bool) {
	sec := ""
	for _, l := range strings.Split(msg, "\n") {
		switch {
		case l == "Extra paths exist:":
			sec = "e"
		case l == "Required paths does not exist:":
			sec = "m"
		case strings.HasPrefix(l, "\t") && sec != "":
			p := strings.TrimPrefix(l, "\t")
			rel, err := filepath.Rel(filepath.Clean(target), filepath.Clean(p))
			if err != nil {
				rel = p
			}
			rel = filepath.ToSlash(rel)
			if sec == "e" {
				extra = append(extra, rel)
			} else {
				missing = append(missing, rel)
			}
		default:
			return nil, nil, false
		}
	}
	sort.Strings(extra)
	sort.Strings(missing)
	return extra, missing, sec != ""
}

func setEq(a, b []string) bool { return strings.Join(a, "\x00") == strings.Join(b, "\x00") }

func c08Case(c *rep.Ctx, r c08Replay) {
	f := enum.Build(r.Depth, r.Names)
	m := model.Merge(f)
	j := fsx.NewJail("c08")
	defer j.Remove()
	desc := fmt.Sprintf("route=%s strict=%v form=%s tree=%s", r.Route, r.Strict, r.Form, model.Key(m))
	size := len(r.Depth)*10 + len(r.State)
	if r.MkDepth != nil && !r.MkSame {
		var err error
		mf := enum.Build(r.MkDepth, r.MkNames)
		pan := sut.Guard(func() {
			err = gtree.MkdirFromMarkdown(strings.NewReader(enum.Spell(r.MkDepth, r.MkNames, enum.Canonical)), gtree.WithTargetDir(j.Target), gtree.WithFileExtensions(r.MkExts))
		})
		if pan != "" || err != nil {
			return // Mkdir's own behaviour is C06's business
		}
		desc += fmt.Sprintf(" after Mkdir(%s, exts=%q)", model.Key(model.Merge(mf)), r.MkExts)
	} else if r.MkDepth == nil {
		for p := range r.State {
			// (an entry below a regular file is no directory state: such combinations are not cases)
			for i := strings.LastIndex(p, "/"); i >= 0; i = strings.LastIndex(p[:i], "/") {
				if k, ok := r.State[p[:i]]; ok && k != 'd' {
					return
				}
			}
		}
		fsx.Populate(j.Target, r.State)
		desc += fmt.Sprintf(" state=%v", keysOf(r.State))
	}
	before := fsx.Snapshot(j.Root)
	state := before.Under("p/q/target").Kinds()
	if r.Form == "not-there" {
		state = map[string]byte{}
	}
	target := j.Target
	var restore func()
	switch r.Form {
	case "rel":
		wd, _ := os.Getwd()
		os.Chdir(filepath.Dir(j.Target))
		target = "target"
		restore = func() { os.Chdir(wd) }
	case "slash":
		target = j.Target + "/"
	case "not-there":
		// a target directory that does not exist (nor does its parent): everything is missing, and it stays that way
		target = filepath.Join(j.Target, "no", "such", "dir")
	case "symlink":
		link := filepath.Join(j.Root, "link-to-target")
		os.Symlink(j.Target, link)
		restore = func() { os.Remove(link) }
		target = link
	case "symlink-dotdot":
		// "<dir>/link-up/../target" where link-up points to <dir>/sibling/deep: taken as text it is <dir>/target, while
		// following the link first leads to <dir>/sibling/target (which exists as well)
		link := filepath.Join(filepath.Dir(j.Target), "link-up")
		os.MkdirAll(filepath.Join(filepath.Dir(j.Target), "sibling", "deep"), 0o755)
		os.MkdirAll(filepath.Join(filepath.Dir(j.Target), "sibling", "target"), 0o755)
		os.Symlink(filepath.Join(filepath.Dir(j.Target), "sibling", "deep"), link)
		restore = func() { os.Remove(link) }
		target = link + "/../target"
	case "dot", "dot-given-last":
		wd, _ := os.Getwd()
		os.Chdir(j.Target)
		target = ""
		restore = func() { os.Chdir(wd) }
	}
	opts := []gtree.Option{}
	switch r.Form {
	case "dot":
		target = "."
	case "dot-given-last":
		// the option given twice: the later one counts, and an empty string is the current directory
		opts = append(opts, gtree.WithTargetDir(filepath.Join(j.Root, "sentinel.txt")), gtree.WithTargetDir(""))
		target = "."
	case "given-twice":
		opts = append(opts, gtree.WithTargetDir(""), gtree.WithTargetDir(filepath.Dir(j.Target)), nil, gtree.WithTargetDir(target))
	default:
		opts = append(opts, gtree.WithTargetDir(target))
	}
	if r.MkDepth != nil && r.MkSame {
		var err error
		mf := enum.Build(r.MkDepth, r.MkNames)
		mo := append(append([]gtree.Option{}, opts...), gtree.WithFileExtensions(r.MkExts))
		mo = append(mo, extraOpts(r.MkExtra, "")...)
		pan := guardMaybeMassive(strings.Contains(r.MkExtra, "massive"), func() {
			err = gtree.MkdirFromMarkdown(strings.NewReader(enum.Spell(r.MkDepth, r.MkNames, enum.Canonical)), mo...)
		})
		if pan != "" || err != nil {
			if restore != nil {
				restore()
			}
			return // Mkdir's own behaviour is C06's business
		}
		desc += fmt.Sprintf(" after Mkdir(%s, exts=%q, same target option, extra=%q)", model.Key(model.Merge(mf)), r.MkExts, r.MkExtra)
		before = fsx.Snapshot(j.Root)
		state = before.Under("p/q/target").Kinds()
	}
	opts = append(opts, extraOpts(r.Extra, "")...)
	if r.Extra != "" {
		desc += " extra options=" + r.Extra
	}
	if r.Strict {
		opts = append(opts, gtree.WithStrictVerify())
	}
	var err error
	pan := guardMaybeMassive(strings.Contains(r.Extra, "massive"), func() {
		switch r.Route {
		case "root":
			err = gtree.VerifyFromRoot(sut.BuildRoot(f[0]), opts...)
		case "root-alias":
			err = gtree.VerifyProgrammably(sut.BuildRoot(f[0]), opts...)
		case "md-alias":
			err = gtree.Verify(strings.NewReader(enum.Spell(r.Depth, r.Names, enum.Canonical)), opts...)
		default:
			err = gtree.VerifyFromMarkdown(strings.NewReader(enum.Spell(r.Depth, r.Names, enum.Canonical)), opts...)
		}
	})
	if restore != nil {
		restore()
	}
	after := fsx.Snapshot(j.Root)
	for _, l := range []string{"link-to-target", "p/q/link-up"} { // the harness's own links
		delete(before, l)
		delete(after, l)
	}
	c.Eval()
	c.Trans(1)
	if pan != "" {
		c.Violation("C08|panic", desc+": "+pan, size, r)
		return
	}
	if !after.Equal(before) {
		c.Violation("C08|verify-changed-fs", desc+": "+fsx.Diff(before, after), size, r)
	}
	// model: per root, missing node paths and (strict) extra entries beneath the root
	type diff struct{ missing, extra []string }
	var diffs []diff
	firstDiff := -1
	allMissing, allExtra := map[string]bool{}, map[string]bool{}
	rootIsFile := false
	for i, rt := range m {
		var d diff
		nodes := map[string]bool{}
		for _, p := range model.Paths(rt) {
			nodes[p] = true
			if _, ok := state[p]; !ok {
				d.missing = append(d.missing, p)
				allMissing[p] = true
			}
		}
		if state[rt.Name] == 'f' {
			rootIsFile = true
		}
		for p := range state {
			if (p == rt.Name || strings.HasPrefix(p, rt.Name+"/")) && !nodes[p] {
				d.extra = append(d.extra, p)
				allExtra[p] = true
			}
		}
		sort.Strings(d.missing)
		sort.Strings(d.extra)
		diffs = append(diffs, d)
		if firstDiff < 0 && (len(d.missing) > 0 || (r.Strict && len(d.extra) > 0)) {
			firstDiff = i
		}
	}
	if rootIsFile {
		// a root that exists as a regular file: see the known finding on file roots; judged separately
		if err != nil && firstDiff < 0 {
			c.Violation("C08|file-root-fails-verification", fmt.Sprintf("%s: every node path exists (a root is a regular file) but err=%v", desc, err), size, r)
		}
		return
	}
	if r.MkDepth != nil && err != nil && fmt.Sprint(r.MkDepth, r.MkNames) == fmt.Sprint(r.Depth, r.Names) {
		// the last clause of the statement, whatever the directory looks like now
		c.Violation("C08|tree-just-created-by-mkdir-does-not-verify", fmt.Sprintf("%s: Mkdir returned nil, then Verify of the same tree with the same target: %v", desc, err), size, r)
		return
	}
	if firstDiff < 0 {
		if err != nil {
			c.Violation("C08|false-alarm", fmt.Sprintf("%s: no difference but err=%v", desc, err), size, r)
		}
		return
	}
	if err == nil {
		c.Violation("C08|difference-not-reported", fmt.Sprintf("%s: missing=%v extra=%v but Verify returned nil", desc, diffs[firstDiff].missing, diffs[firstDiff].extra), size, r)
		return
	}
	extra, missing, ok := parseVerifyErr(err.Error(), target)
	if !ok {
		c.Violation("C08|unparsable-error", fmt.Sprintf("%s: %q", desc, err.Error()), size, r)
		return
	}
	for _, p := range missing {
		if !allMissing[p] {
			c.Violation("C08|listed-missing-is-not-missing", fmt.Sprintf("%s: %q listed as missing but it exists or is no node path (err=%q)", desc, p, err), size, r)
		}
	}
	for _, p := range extra {
		if !allExtra[p] {
			c.Violation("C08|listed-extra-is-not-extra", fmt.Sprintf("%s: %q listed as extra (err=%q)", desc, p, err), size, r)
		}
	}
	d := diffs[firstDiff]
	rootName := m[firstDiff].Name
	okMissing := setEq(missing, d.missing)
	if !okMissing && len(d.missing) > 0 && d.missing[0] == rootName && setEq(missing, []string{rootName}) {
		okMissing = true // the root itself is absent: naming the root alone is accepted
	}
	if !okMissing {
		c.Violation("C08|wrong-missing-list", fmt.Sprintf("%s: first differing root %q: listed missing %v, model %v", desc, rootName, missing, d.missing), size, r)
	}
	if r.Strict {
		if !setEq(extra, d.extra) && !(len(d.missing) > 0 && d.missing[0] == rootName) {
			c.Violation("C08|wrong-extra-list", fmt.Sprintf("%s: first differing root %q: listed extra %v, model %v", desc, rootName, extra, d.extra), size, r)
		}
	} else if len(extra) > 0 {
		c.Violation("C08|extras-reported-in-non-strict-mode", fmt.Sprintf("%s: %v", desc, extra), size, r)
	}
}

func keysOf(m map[string]byte) []string {
	var ks []string
	for k, v := range m {
		ks = append(ks, k+":"+string(v))
	}
	sort.Strings(ks)
	return ks
}

// universe lists the candidate entries for the directory states of a merged forest.
func c08Universe(m model.Forest) (paths []string, kind map[string]byte) {
	kind = map[string]byte{}
	add := func(p string, k byte) {
		if _, ok := kind[p]; !ok {
			kind[p] = k
			paths = append(paths, p)
		}
	}
	for _, rt := range m {
		for _, row := range model.Rows(rt, model.DefaultFmt) {
			add(row.Path, 'd')
		}
	}
	for _, rt := range m {
		add(rt.Name+"/_xd", 'd')
		add(rt.Name+"/_xd/_in", 'f')
		for _, row := range model.Rows(rt, model.DefaultFmt) {
			if row.HasChild && row.Level > 1 {
				add(row.Path+"/_xf", 'f')
			}
		}
	}
	add("_top_extra", 'd')
	return
}

func init() {
	props["C08"] = func(c *rep.Ctx) {
		maxN, maxU := 4, 9
		if c.Thorough() {
			maxN, maxU = 5, 11
		}
		c.Bound("nodes", fmt.Sprint(maxN))
		c.Bound("universe_cap", fmt.Sprint(maxU))
		for n := 1; n <= maxN && !c.Expired(); n++ {
			enum.DepthSeqs(n, func(d0 []int) {
				d := append([]int{}, d0...)
				roots := 0
				for _, x := range d {
					if x == 1 {
						roots++
					}
				}
				if roots > 2 {
					return
				}
				enum.Tuples(n, 2, func(t []int) {
					names := enum.Pick([]string{"a", "b"}, t)
					f := enum.Build(d, names)
					if c.Expired() {
						return
					}
					m := model.Merge(f)
					paths, kind := c08Universe(m)
					if len(paths) > maxU {
						paths = paths[:maxU]
					}
					c.Trace()
					// every prefix-closed subset of the universe
					enum.Tuples(len(paths), 2, func(bits []int) {
						st := map[string]byte{}
						for i, b := range bits {
							if b == 1 {
								st[paths[i]] = kind[paths[i]]
							}
						}
						for p := range st {
							if i := strings.LastIndex(p, "/"); i >= 0 {
								if _, ok := st[p[:i]]; !ok {
									return // not prefix-closed
								}
							}
						}
						if !c.Take() {
							return
						}
						c.StateN(1)
						if len(st) > 0 {
							c.Nontrivial()
						}
						if c.R.States%4000 == 1 {
							c.Sample(map[string]any{"doc": enum.Spell(d, names, enum.Canonical), "dir_state": keysOf(st)})
						}
						for _, strict := range []bool{false, true} {
							c08Case(c, c08Replay{Kind: "c08", Depth: d, Names: names, State: st, Strict: strict, Form: "abs", Route: "md"})
							if roots == 1 {
								c08Case(c, c08Replay{Kind: "c08", Depth: d, Names: names, State: st, Strict: strict, Form: "abs", Route: "root"})
							}
						}
						if c.R.States%7 == 0 {
							for _, form := range []string{"rel", "slash", "dot", "dot-given-last", "given-twice", "symlink", "not-there"} {
								c08Case(c, c08Replay{Kind: "c08", Depth: d, Names: names, State: st, Strict: true, Form: form, Route: "md"})
							}
							// the deprecated aliases take the same options
							c08Case(c, c08Replay{Kind: "c08", Depth: d, Names: names, State: st, Strict: true, Form: "abs", Route: "md-alias"})
							c08Case(c, c08Replay{Kind: "c08", Depth: d, Names: names, State: st, Strict: false, Form: "dot", Route: "md-alias"})
							if roots == 1 {
								c08Case(c, c08Replay{Kind: "c08", Depth: d, Names: names, State: st, Strict: true, Form: "slash", Route: "root-alias"})
								c08Case(c, c08Replay{Kind: "c08", Depth: d, Names: names, State: st, Strict: true, Form: "dot-given-last", Route: "root"})
							}
						}
						if c.R.States%11 == 0 || len(d) <= 2 {
							ex := c08Extras[int(c.R.States/11)%len(c08Extras)]
							if len(d) <= 2 {
								ex = c08Extras[int(c.R.States)%len(c08Extras)]
							}
							if roots != 1 && strings.Contains(ex, "massive") {
								ex = "yaml,noiter" // with several roots the massive option may report any differing root
							}
							for _, strict := range []bool{false, true} {
								c08Case(c, c08Replay{Kind: "c08", Depth: d, Names: names, State: st, Strict: strict, Form: "abs", Route: "md", Extra: ex})
								if roots == 1 {
									c08Case(c, c08Replay{Kind: "c08", Depth: d, Names: names, State: st, Strict: strict, Form: "abs", Route: "root", Extra: ex})
								}
							}
						}
						// leaf kinds: the same state with every childless node path present as a regular file
						st2 := map[string]byte{}
						changed := false
						for p, k := range st {
							st2[p] = k
						}
						for _, rt := range m {
							for _, row := range model.Rows(rt, model.DefaultFmt) {
								if _, ok := st2[row.Path]; ok && !row.HasChild && row.Level > 1 {
									st2[row.Path] = 'f'
									changed = true
								}
							}
						}
						if changed {
							c08Case(c, c08Replay{Kind: "c08", Depth: d, Names: names, State: st2, Strict: true, Form: "abs", Route: "md"})
						}
						// inner kinds: a node that has children exists as a regular file (nothing can exist below it)
						for _, rt := range m {
							for _, row := range model.Rows(rt, model.DefaultFmt) {
								if _, ok := st[row.Path]; !ok || !row.HasChild {
									continue
								}
								st3 := map[string]byte{}
								for p, k := range st {
									if !strings.HasPrefix(p, row.Path+"/") {
										st3[p] = k
									}
								}
								st3[row.Path] = 'f'
								for _, strict := range []bool{false, true} {
									c08Case(c, c08Replay{Kind: "c08", Depth: d, Names: names, State: st3, Strict: strict, Form: "abs", Route: "md"})
									if roots == 1 {
										c08Case(c, c08Replay{Kind: "c08", Depth: d, Names: names, State: st3, Strict: strict, Form: "abs", Route: "root", Extra: "massive"})
									}
								}
							}
						}
					})
				})
			})
		}
		// size families: wide / deep / many-root trees; state = everything present, minus one node path, plus one extra entry
		for size := 2; size <= 40 && !c.Expired(); size++ {
			if !c.Take() {
				continue
			}
			var dw, dc, dr []int
			var nw, nc, nr []string
			dw, nw = append(dw, 1), append(nw, "wide")
			for i := 0; i < size; i++ {
				dw = append(dw, 2)
				nw = append(nw, fmt.Sprintf("d%02d", i))
				dc = append(dc, i+1)
				nc = append(nc, fmt.Sprintf("n%02d", i))
				dr = append(dr, 1, 2)
				nr = append(nr, fmt.Sprintf("root%02d", i), "k")
			}
			for _, t := range []struct {
				d []int
				n []string
			}{{dw, nw}, {dc, nc}, {dr, nr}} {
				f := model.Merge(enum.Build(t.d, t.n))
				var all []string
				for _, rt := range f {
					all = append(all, model.Paths(rt)...)
				}
				full := map[string]byte{}
				for _, p := range all {
					full[p] = 'd'
				}
				c.StateN(1)
				c.Nontrivial()
				for _, strict := range []bool{false, true} {
					c08Case(c, c08Replay{Kind: "c08", Depth: t.d, Names: t.n, State: full, Strict: strict, Form: "abs", Route: "md"})
					// the last path missing; an extra directory below the last-but-one node
					st := map[string]byte{}
					for _, p := range all[:len(all)-1] {
						st[p] = 'd'
					}
					c08Case(c, c08Replay{Kind: "c08", Depth: t.d, Names: t.n, State: st, Strict: strict, Form: "abs", Route: "md"})
					st2 := map[string]byte{}
					for _, p := range all {
						st2[p] = 'd'
					}
					st2[all[len(all)/2]+"/_extra"] = 'd'
					c08Case(c, c08Replay{Kind: "c08", Depth: t.d, Names: t.n, State: st2, Strict: strict, Form: "abs", Route: "md"})
					if len(f) >= 3 {
						// an early root differs in content (its child is missing) and the LAST root is absent altogether:
						// the report must be about the early one
						st3 := map[string]byte{}
						lastRoot := f[len(f)-1].Name
						for _, p := range all {
							if p == f[1].Name+"/k" || p == lastRoot || strings.HasPrefix(p, lastRoot+"/") {
								continue
							}
							st3[p] = 'd'
						}
						c08Case(c, c08Replay{Kind: "c08", Depth: t.d, Names: t.n, State: st3, Strict: strict, Form: "abs", Route: "md"})
					}
				}
			}
		}
		// the size sweep (enum/size.go): every width and depth up to the bound; the directory holds exactly the tree, the
		// tree minus its last path, the tree plus one entry in the middle
		{
			upTo, far, deepTo, deepFar := 140, 1030, 130, 260 // (file-system work per case: widths get a smaller every-integer bound here than in C01-C05)
			if c.Thorough() {
				upTo, far, deepTo, deepFar = 1100, 2100, 300, 520
			}
			c.Bound("size_sweep_width_every_integer_up_to", fmt.Sprint(upTo))
			c.Bound("size_sweep_depth_every_integer_up_to", fmt.Sprint(deepTo))
			c.Bound("size_sweep_depth_power_of_two_neighbours_up_to", fmt.Sprint(deepFar))
			sweep := func(s enum.SizeShape) {
				if !c.Take() || c.Expired() {
					return
				}
				f := model.Merge(enum.Build(s.D, s.Names))
				if !distinctRoots(f) {
					return
				}
				for _, nm := range s.Names {
					if strings.ContainsAny(nm, "/") {
						return
					}
				}
				var all []string
				for _, rt := range f {
					all = append(all, model.Paths(rt)...)
				}
				full, short, more := map[string]byte{}, map[string]byte{}, map[string]byte{}
				for i, p := range all {
					full[p], more[p] = 'd', 'd'
					if i < len(all)-1 {
						short[p] = 'd'
					}
				}
				more[all[len(all)/2]+"/_extra"] = 'd'
				c.StateN(1)
				c.Nontrivial()
				c.Inc("size_sweep_cases")
				route := "md"
				if len(f) == 1 && s.Size%2 == 1 {
					route = "root"
				}
				extra := ""
				if len(f) == 1 && s.Size%3 == 2 {
					extra = "massive"
				}
				strict := s.Size%2 == 0
				c08Case(c, c08Replay{Kind: "c08", Depth: s.D, Names: s.Names, State: full, Strict: true, Form: "abs", Route: route, Extra: extra})
				c08Case(c, c08Replay{Kind: "c08", Depth: s.D, Names: s.Names, State: short, Strict: strict, Form: "abs", Route: route})
				c08Case(c, c08Replay{Kind: "c08", Depth: s.D, Names: s.Names, State: more, Strict: true, Form: "abs", Route: "md", Extra: extra})
			}
			enum.DeepShapes(enum.Sizes(deepTo, deepFar), sweep)
			enum.WideShapes(enum.Sizes(upTo, far), sweep)
			enum.TwinShapes(sweep)
		}
		// entries the tree does not name, called what file managers, version control and editors call their own files: in
		// strict mode each of them is a difference like any other, at every place, as a directory and as a file
		{
			special := []string{".DS_Store", "Thumbs.db", "desktop.ini", ".git", ".gitkeep", ".gitignore", ".svn", "node_modules", "__pycache__", ".idea", ".vscode", "lost+found", ".#lock", "a~", ".a.swp", ".hidden", "core", "%s", "100%", "--", "-", "*"}
			d, names := []int{1, 2, 3, 2}, []string{"a", "b", "c", "d"}
			for si, sp := range special {
				if !c.Take() || c.Expired() {
					continue
				}
				for _, at := range []string{"a", "a/b", "a/b/c", "a/d"} {
					for _, kind := range []byte{'d', 'f'} {
						st := map[string]byte{"a": 'd', "a/b": 'd', "a/b/c": 'd', "a/d": 'd', at + "/" + sp: kind}
						c.StateN(1)
						c.Nontrivial()
						c.Inc("special_extra_entries")
						for _, strict := range []bool{true, false} {
							c08Case(c, c08Replay{Kind: "c08", Depth: d, Names: names, State: st, Strict: strict, Form: "abs", Route: []string{"md", "root"}[si%2]})
							c08Case(c, c08Replay{Kind: "c08", Depth: d, Names: names, State: st, Strict: strict, Form: "abs", Route: []string{"root", "md"}[si%2], Extra: "massive"})
						}
					}
				}
			}
		}
		// histories: Mkdir(A, exts) then Verify(B), all pairs of trees n <= 3 over {a, b.go}
		type tr struct {
			d     []int
			names []string
		}
		var trees []tr
		for n := 1; n <= 3; n++ {
			enum.DepthSeqs(n, func(d0 []int) {
				enum.Tuples(n, 2, func(t []int) {
					names := enum.Pick([]string{"a", "b.go"}, t)
					if distinctRoots(enum.Build(d0, names)) {
						trees = append(trees, tr{append([]int{}, d0...), names})
					}
				})
			})
		}
		// trees in which one name is a leaf in one place and has children in another, and file-like names that carry
		// children (what each node is depends on the node, not on its name)
		for _, t := range []tr{
			{[]int{1, 2, 2, 3, 4}, []string{"r", "b.go", "a", "b.go", "x"}},
			{[]int{1, 2, 3, 2}, []string{"r", "b.go", "x", "b.go"}},
			{[]int{1, 2, 1, 2, 3}, []string{"a", "b.go", "c", "b.go", "b.go"}},
			{[]int{1, 2, 3, 3, 2}, []string{"r", "v1.go", "a.go", "b.go", "z.go"}},
		} {
			if !c.Take() {
				continue
			}
			for _, mx := range []string{"", "massive"} {
				for _, ex := range [][]string{{".go"}, {".go", "a"}, nil} {
					c.StateN(1)
					c.Nontrivial()
					c08Case(c, c08Replay{Kind: "c08", Depth: t.d, Names: t.names, Strict: true, Form: "abs", Route: "md", MkDepth: t.d, MkNames: t.names, MkExts: ex, MkSame: true, MkExtra: mx})
				}
			}
		}
		// many roots with the massive option: every root differs (absent, or with an extra entry); the call returns
		// with an error (which differing root it reports is up to the schedule)
		for _, R := range []int{3, 11, 12, 13, 25, 40} {
			if !c.Take() || c.Expired() {
				continue
			}
			var doc strings.Builder
			pre := map[string]byte{}
			for i := 0; i < R; i++ {
				fmt.Fprintf(&doc, "- root%02d\n  - k\n", i)
				pre[fmt.Sprintf("root%02d/k/extra", i)] = 'd'
			}
			for _, strict := range []bool{false, true} {
				j := fsx.NewJail("c08m")
				if strict {
					fsx.Populate(j.Target, pre)
				}
				var err error
				opts := append([]gtree.Option{gtree.WithTargetDir(j.Target)}, extraOpts("massive", "")...)
				if strict {
					opts = append(opts, gtree.WithStrictVerify())
				}
				pan := guardMaybeMassive(true, func() { err = gtree.VerifyFromMarkdown(strings.NewReader(doc.String()), opts...) })
				c.Eval()
				c.StateN(1)
				if pan != "" || err == nil {
					c.Violation("C08|massive-many-differing-roots", fmt.Sprintf("%d roots, each differing (strict=%v): err=%v %s", R, strict, err, pan), R, nil)
				}
				j.Remove()
			}
		}
		for _, A := range trees {
			for _, B := range trees {
				if !c.Take() || c.Expired() {
					continue
				}
				for _, ex := range [][]string{nil, {".go"}} {
					for _, strict := range []bool{false, true} {
						c.StateN(1)
						c.Nontrivial()
						c08Case(c, c08Replay{Kind: "c08", Depth: B.d, Names: B.names, Strict: strict, Form: "abs", Route: "md", MkDepth: A.d, MkNames: A.names, MkExts: ex})
					}
				}
				if fmt.Sprint(A) == fmt.Sprint(B) {
					// Mkdir then Verify of the same tree, both given the same target spelling; Mkdir also with the massive option
					for _, form := range []string{"abs", "rel", "slash", "symlink", "symlink-dotdot", "dot"} {
						for _, mx := range []string{"", "massive"} {
							for _, ex := range [][]string{nil, {".go"}, {".go", "a"}} {
								c08Case(c, c08Replay{Kind: "c08", Depth: B.d, Names: B.names, Strict: true, Form: form, Route: "md", MkDepth: A.d, MkNames: A.names, MkExts: ex, MkSame: true, MkExtra: mx})
							}
						}
					}
				}
			}
		}
	}
	replayers["c08"] = func(raw json.RawMessage) bool {
		var r c08Replay
		if json.Unmarshal(raw, &r) != nil {
			return false
		}
		c := rep.New("C08", "replay", "quick", 0, 1, 0, 0)
		c08Case(c, r)
		for k, v := range c.R.ViolEx {
			fmt.Println(k, v[0].Detail)
		}
		return len(c.R.ViolCount) > 0
	}
}
