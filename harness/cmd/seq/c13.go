package main

import (
	"bytes"
	"context"
	"encoding/json"
	"fmt"
	"io"
	"iter"
	"reflect"
	"sort"
	"strings"
	"sync"
	"time"

	"github.com/ddddddO/gtree"
	"github.com/fatih/color"

	"verifharness/fsx"
	"verifharness/model"
	"verifharness/rep"
	"verifharness/sut"
)

// ---- C13: results depend only on the tree, not on the call history

// hop is one step of an API history over two tree slots.
type hop struct {
	K    string `json:"k"` // N(ewRoot) A(dd) T(ext) W(alk) J(son) D(ryrun) M(arkdown call) F (text with custom branch strings)
	T    int    `json:"t"`
	Node int    `json:"node,omitempty"`
	Name string `json:"name,omitempty"`
}

var c13Jail *fsx.Jail
var c13MassiveHung bool

func hasInvalidName(n *model.Node) bool {
	if n.Name == "" || n.Name == "." || n.Name == ".." || strings.Contains(n.Name, "/") {
		return true
	}
	for _, k := range n.Kids {
		if hasInvalidName(k) {
			return true
		}
	}
	return false
}

func (h hop) String() string {
	switch h.K {
	case "N":
		return fmt.Sprintf("t%d=NewRoot(%q)", h.T, h.Name)
	case "A":
		return fmt.Sprintf("t%d.node%d.Add(%q)", h.T, h.Node, h.Name)
	case "M":
		return "OutputFromMarkdown(other doc)"
	case "Q":
		return fmt.Sprintf("OutputProgrammably(t%d)", h.T)
	case "Z":
		return fmt.Sprintf("WalkProgrammably+WalkIterProgrammably(t%d)", h.T)
	case "U":
		return "NewRoot(unrelated).Add(u)"
	case "G":
		return fmt.Sprintf("massive WalkFromRoot + massive dry run (t%d)", h.T)
	case "H":
		return fmt.Sprintf("WalkFromRoot(t%d, custom branches, dry run, stopped at node 2)+massive JSON", h.T)
	}
	return fmt.Sprintf("%s(t%d)", h.K, h.T)
}

type c13Replay struct {
	Kind    string `json:"kind"`
	History []hop  `json:"history"`
}

type c13World struct {
	real  [2][]*gtree.Node
	model [2][]*model.Node
	held  [2]iter.Seq2[*gtree.WalkerNode, error] // a WalkIter sequence obtained earlier and not yet ranged over
}

const c13MdDoc = "- x\n  - y\n  - z\n    - w\n"

var c13MdWant = "x\n├── y\n└── z\n    └── w\n"

// observe runs an observing operation on tree t and returns (got, want).
func (w *c13World) observe(k string, t int) (got, want string, pan string) {
	root, mroot := w.real[t][0], w.model[t][0]
	m := model.MergeNode(mroot)
	switch k {
	case "T":
		out, err, p := sut.OutputRoot(root)
		return fmt.Sprintf("%q err=%v", out, err), fmt.Sprintf("%q err=<nil>", model.RenderRoot(m, model.DefaultFmt)), p
	case "F":
		fm := fmtTuples[5]
		out, err, p := sut.OutputRoot(root, sut.FmtOpts(fm)...)
		return fmt.Sprintf("%q err=%v", out, err), fmt.Sprintf("%q err=<nil>", model.RenderRoot(m, fm)), p
	case "W":
		var rows []string
		var err error
		p := sut.Guard(func() {
			err = gtree.WalkFromRoot(root, func(wn *gtree.WalkerNode) error {
				rows = append(rows, fmt.Sprintf("%s|%s|%d|%v", wn.Row(), wn.Path(), wn.Level(), wn.HasChild()))
				return nil
			})
		})
		var wr []string
		for _, r := range model.Rows(m, model.DefaultFmt) {
			wr = append(wr, fmt.Sprintf("%s|%s|%d|%v", r.Line, r.Path, r.Level, r.HasChild))
		}
		return fmt.Sprintf("%q err=%v", rows, err), fmt.Sprintf("%q err=<nil>", wr), p
	case "P":
		// text output with the massive option (a single root: the result is schedule-independent); guarded by a
		// 60 s timeout because it runs on real goroutines
		if c13MassiveHung {
			return "skipped", "skipped", ""
		}
		var buf bytes.Buffer
		var err error
		done := make(chan string, 1)
		go func() {
			done <- sut.Guard(func() { err = gtree.OutputFromRoot(&buf, root, gtree.WithMassive(context.Background())) })
		}()
		select {
		case p := <-done:
			return fmt.Sprintf("%q err=%v", buf.String(), err), fmt.Sprintf("%q err=<nil>", model.RenderRoot(m, model.DefaultFmt)), p
		case <-time.After(60 * time.Second):
			c13MassiveHung = true
			return "massive OutputFromRoot did not return within 60 s", "a result", ""
		}
	case "R":
		// range over the sequence obtained earlier by step S: it describes the tree as it is NOW, with the default
		// branch strings, whatever was called in between
		var rows []string
		var err error
		p := sut.Guard(func() {
			for wn, e := range w.held[t] {
				if e != nil {
					err = e
					break
				}
				rows = append(rows, fmt.Sprintf("%s|%s|%d|%v", wn.Row(), wn.Path(), wn.Level(), wn.HasChild()))
			}
		})
		var wr []string
		for _, r := range model.Rows(m, model.DefaultFmt) {
			wr = append(wr, fmt.Sprintf("%s|%s|%d|%v", r.Line, r.Path, r.Level, r.HasChild))
		}
		return fmt.Sprintf("%q err=%v", rows, err), fmt.Sprintf("%q err=<nil>", wr), p
	case "J":
		out, err, p := sut.OutputRoot(root, gtree.WithEncodeJSON())
		f, derr := decode("json", out)
		return fmt.Sprintf("%s err=%v derr=%v", model.Key(f), err, derr), fmt.Sprintf("%s err=<nil> derr=<nil>", model.Key(model.Forest{m})), p
	case "Y":
		out, err, p := sut.OutputRoot(root, gtree.WithEncodeYAML())
		f, derr := decode("yaml", out)
		return fmt.Sprintf("%s err=%v derr=%v", model.Key(f), err, derr), fmt.Sprintf("%s err=<nil> derr=<nil>", model.Key(model.Forest{m})), p
	case "D":
		var buf bytes.Buffer
		var err error
		old := color.Output
		color.Output = &buf
		p := sut.Guard(func() { err = gtree.MkdirFromRoot(root, gtree.WithDryRun(), gtree.WithFileExtensions([]string{"b"})) })
		color.Output = old
		d, f := model.Counts(m, []string{"b"})
		if hasInvalidName(m) {
			// dry run validates names: an error and no report, whatever happened before
			return fmt.Sprintf("%q err!=nil:%v", buf.String(), err != nil), `"" err!=nil:true`, p
		}
		return fmt.Sprintf("%q err=%v", model.NormSummary(buf.String()), err), fmt.Sprintf("%q err=<nil>", model.NormSummary(model.RenderRoot(m, model.DefaultFmt)+fmt.Sprintf("\n%d directories, %d files\n", d, f))), p
	case "K":
		// a real Mkdir into a fresh directory: rejected (nothing created anywhere) iff a name is not a valid path
		// element, else exactly the tree is created
		j := fsx.NewJail("c13k")
		defer j.Remove()
		before := fsx.Snapshot(j.Root)
		var err error
		p := sut.Guard(func() { err = gtree.MkdirFromRoot(root, gtree.WithTargetDir(j.Target)) })
		after := fsx.Snapshot(j.Root)
		if hasInvalidName(m) {
			return fmt.Sprintf("err!=nil:%v changed:%q", err != nil, fsx.Diff(before, after)), `err!=nil:true changed:""`, p
		}
		want := []string{}
		for pth := range model.Plan(model.Forest{m}, nil) {
			want = append(want, "+p/q/target/"+pth+"(d)")
		}
		sort.Strings(want)
		return fmt.Sprintf("err=%v created:%s", err, fsx.Diff(before, after)), fmt.Sprintf("err=<nil> created:%s", strings.Join(want, " ")), p
	case "PK":
		// the real Mkdir with the massive option (single root)
		j := fsx.NewJail("c13pk")
		defer j.Remove()
		before := fsx.Snapshot(j.Root)
		var err error
		p := guardMaybeMassive(true, func() {
			err = gtree.MkdirFromRoot(root, gtree.WithTargetDir(j.Target), gtree.WithMassive(context.Background()))
		})
		after := fsx.Snapshot(j.Root)
		if hasInvalidName(m) {
			return fmt.Sprintf("err!=nil:%v", err != nil), `err!=nil:true`, p
		}
		want := []string{}
		for pth := range model.Plan(model.Forest{m}, nil) {
			want = append(want, "+p/q/target/"+pth+"(d)")
		}
		sort.Strings(want)
		return fmt.Sprintf("err=%v created:%s", err, fsx.Diff(before, after)), fmt.Sprintf("err=<nil> created:%s", strings.Join(want, " ")), p
	case "PW":
		// walk with the massive option (single root: the order is fixed)
		var rows []string
		var err error
		var mu sync.Mutex // (the callback of one root is called sequentially; should a tree call it from several goroutines, the rows come out in a wrong order and are reported - the harness must survive that)
		p := guardMaybeMassive(true, func() {
			err = gtree.WalkFromRoot(root, func(wn *gtree.WalkerNode) error {
				mu.Lock()
				defer mu.Unlock()
				rows = append(rows, fmt.Sprintf("%s|%s|%d|%v", wn.Row(), wn.Path(), wn.Level(), wn.HasChild()))
				return nil
			}, gtree.WithMassive(nil))
		})
		mu.Lock()
		defer mu.Unlock()
		var wr []string
		for _, r := range model.Rows(m, model.DefaultFmt) {
			wr = append(wr, fmt.Sprintf("%s|%s|%d|%v", r.Line, r.Path, r.Level, r.HasChild))
		}
		return fmt.Sprintf("%q err=%v", rows, err), fmt.Sprintf("%q err=<nil>", wr), p
	case "PD":
		// dry run with the massive option
		var buf bytes.Buffer
		var err error
		old := color.Output
		color.Output = &buf
		p := guardMaybeMassive(true, func() {
			err = gtree.MkdirFromRoot(root, gtree.WithDryRun(), gtree.WithFileExtensions([]string{"b"}), gtree.WithMassive(context.Background()))
		})
		color.Output = old
		d, f := model.Counts(m, []string{"b"})
		if hasInvalidName(m) {
			return fmt.Sprintf("err!=nil:%v", err != nil), `err!=nil:true`, p
		}
		return fmt.Sprintf("%q err=%v", model.NormSummary(buf.String()), err), fmt.Sprintf("%q err=<nil>", model.NormSummary(model.RenderRoot(m, model.DefaultFmt)+fmt.Sprintf("\n%d directories, %d files\n", d, f))), p
	case "V":
		// verify against an empty directory: always "root missing" for valid names, a name error otherwise; never nil
		if c13Jail == nil {
			c13Jail = fsx.NewJail("c13") // one empty directory per process: verify never changes it (C08)
		}
		j := c13Jail
		var err error
		p := sut.Guard(func() { err = gtree.VerifyFromRoot(root, gtree.WithTargetDir(j.Target)) })
		return fmt.Sprintf("err!=nil:%v", err != nil), "err!=nil:true", p
	}
	panic("unknown observation " + k)
}

// apply performs a non-observing step.
func (w *c13World) apply(h hop) {
	switch h.K {
	case "N":
		w.held[h.T] = nil
		w.real[h.T] = []*gtree.Node{gtree.NewRoot(h.Name)}
		w.model[h.T] = []*model.Node{{Name: h.Name}}
	case "A":
		mp := w.model[h.T][h.Node]
		got := w.real[h.T][h.Node].Add(h.Name)
		for _, k := range mp.Kids {
			if k.Name == h.Name {
				return
			}
		}
		mk := &model.Node{Name: h.Name}
		mp.Kids = append(mp.Kids, mk)
		w.real[h.T] = append(w.real[h.T], got)
		w.model[h.T] = append(w.model[h.T], mk)
	case "M":
		sut.Output(c13MdDoc)
	case "S":
		w.held[h.T] = gtree.WalkIterFromRoot(w.real[h.T][0])
	case "Q":
		// the deprecated aliases are part of the API: calling them is just another call
		var buf bytes.Buffer
		gtree.OutputProgrammably(&buf, w.real[h.T][0])
	case "Z":
		gtree.WalkProgrammably(w.real[h.T][0], func(*gtree.WalkerNode) error { return nil })
		for range gtree.WalkIterProgrammably(w.real[h.T][0]) {
		}
	case "H":
		// a walk with other branch strings, the dry-run option and a callback that stops at the second node; then
		// a massive JSON output: different options, same tree
		n := 0
		gtree.WalkFromRoot(w.real[h.T][0], func(*gtree.WalkerNode) error {
			if n++; n == 2 {
				return errStop
			}
			return nil
		}, append(sut.FmtOpts(fmtTuples[6]), gtree.WithDryRun())...)
		guardMaybeMassive(true, func() {
			gtree.OutputFromRoot(&bytes.Buffer{}, w.real[h.T][0], gtree.WithMassive(context.Background()), gtree.WithEncodeJSON(), gtree.WithFileExtensions([]string{"a"}))
		})
	case "G":
		// a massive walk and a massive dry run of the caller's tree: it is the caller's, they only read it
		guardMaybeMassive(true, func() {
			gtree.WalkFromRoot(w.real[h.T][0], func(*gtree.WalkerNode) error { return nil }, gtree.WithMassive(context.Background()))
			old := color.Output
			color.Output = &bytes.Buffer{}
			gtree.MkdirFromRoot(w.real[h.T][0], gtree.WithMassive(nil), gtree.WithDryRun(), gtree.WithFileExtensions([]string{"a"}))
			color.Output = old
		})
	case "U":
		// an unrelated root (and a child) made in between
		gtree.NewRoot("unrelated").Add("u")
	case "X":
		// a real Mkdir with an extension list in a throw-away directory: it must leave the caller's tree as it was
		j := fsx.NewJail("c13x")
		gtree.MkdirFromRoot(w.real[h.T][0], gtree.WithTargetDir(j.Target), gtree.WithFileExtensions([]string{"b"}))
		j.Remove()
	default:
		w.observe(h.K, h.T)
	}
}

func c13Run(c *rep.Ctx, hist []hop) {
	w := &c13World{}
	last := hist[len(hist)-1]
	var pan string
	p := sut.Guard(func() {
		for _, h := range hist[:len(hist)-1] {
			w.apply(h)
		}
	})
	c.Eval()
	c.Trans(len(hist))
	c.Trace()
	rp := c13Replay{"c13", append([]hop{}, hist...)}
	if p != "" {
		c.Violation("C13|panic", fmt.Sprintf("history %v: %s", hist, p), len(hist), rp)
		return
	}
	var got, want string
	if last.K == "M" {
		out, err, pp := sut.Output(c13MdDoc)
		got, want, pan = fmt.Sprintf("%q err=%v", out, err), fmt.Sprintf("%q err=<nil>", c13MdWant), pp
	} else {
		got, want, pan = w.observe(last.K, last.T)
	}
	if pan != "" {
		c.Violation("C13|panic", fmt.Sprintf("history %v: %s", hist, pan), len(hist), rp)
		return
	}
	if got != want {
		c.Violation("C13|history-dependent-result|"+last.K, fmt.Sprintf("history: %v\n got: %s\nwant: %s (predicted from the tree shape alone)", hist, got, want), len(hist), rp)
		return
	}
	// repeating the operation repeats its result
	if last.K != "M" {
		if got2, _, _ := w.observe(last.K, last.T); got2 != got {
			c.Violation("C13|repeat-differs|"+last.K, fmt.Sprintf("history: %v\nfirst:  %s\nsecond: %s", hist, got, got2), len(hist), rp)
		}
	}
}

// c13Repeat: one kind of call repeated R times (failing ones above all: a resource taken and not given back on an error
// path adds up), then every observation on a fresh tree must still be what the tree alone predicts.
func c13Repeat(c *rep.Ctx) {
	reps := []int{1, 12}
	if c.Thorough() {
		reps = []int{1, 5, 12, 40}
	}
	c.Bound("repetitions", fmt.Sprint(reps))
	bad := func() *gtree.Node { r := gtree.NewRoot("r"); r.Add("x/y").Add("k"); r.Add("ok"); return r }
	good := func() *gtree.Node { r := gtree.NewRoot("r"); r.Add("a").Add("b"); r.Add("b"); return r }
	const badDoc = "- r\n  - x/y\n- s\n  - ..\n"
	const malformed = "- r\n  -\n- s\n      - deep\n"
	const okDoc = "- r\n  - a\n- s\n  - b\n"
	ms := func() gtree.Option { return gtree.WithMassive(context.Background()) }
	cancelled := func() gtree.Option {
		ctx, cancel := context.WithCancel(context.Background())
		cancel()
		return gtree.WithMassive(ctx)
	}
	cbErr := func(*gtree.WalkerNode) error { return errStop }
	tmp := func(f func(target string)) {
		j := fsx.NewJail("c13rep")
		f(j.Target)
		j.Remove()
	}
	calls := []struct {
		name    string
		massive bool
		f       func()
	}{
		{"massive MkdirFromRoot with an invalid name", true, func() { tmp(func(t string) { gtree.MkdirFromRoot(bad(), gtree.WithTargetDir(t), ms()) }) }},
		{"massive VerifyFromRoot with an invalid name", true, func() { tmp(func(t string) { gtree.VerifyFromRoot(bad(), gtree.WithTargetDir(t), ms()) }) }},
		{"massive dry run with an invalid name", true, func() { gtree.MkdirFromRoot(bad(), gtree.WithDryRun(), ms()) }},
		{"massive MkdirFromMarkdown with invalid names", true, func() {
			tmp(func(t string) { gtree.MkdirFromMarkdown(strings.NewReader(badDoc), gtree.WithTargetDir(t), ms()) })
		}},
		{"massive VerifyFromMarkdown of missing roots", true, func() {
			tmp(func(t string) { gtree.VerifyFromMarkdown(strings.NewReader(okDoc), gtree.WithTargetDir(t), ms()) })
		}},
		{"massive MkdirFromMarkdown into existing roots", true, func() {
			tmp(func(t string) {
				fsx.Populate(t, map[string]byte{"r": 'd', "s": 'f'})
				gtree.MkdirFromMarkdown(strings.NewReader(okDoc), gtree.WithTargetDir(t), ms())
			})
		}},
		{"massive OutputFromMarkdown of a malformed document", true, func() { gtree.OutputFromMarkdown(&bytes.Buffer{}, strings.NewReader(malformed), ms()) }},
		{"massive OutputFromMarkdown to a failing writer", true, func() { gtree.OutputFromMarkdown(brokenWriter{}, strings.NewReader(okDoc), ms()) }},
		{"massive JSON output to a failing writer", true, func() { gtree.OutputFromRoot(brokenWriter{}, good(), ms(), gtree.WithEncodeJSON()) }},
		{"massive WalkFromMarkdown with a failing callback", true, func() { gtree.WalkFromMarkdown(strings.NewReader(okDoc+okDoc), cbErr, ms()) }},
		{"massive WalkFromRoot with a failing callback", true, func() { gtree.WalkFromRoot(good(), cbErr, ms()) }},
		{"massive output under a cancelled context", true, func() { gtree.OutputFromMarkdown(&bytes.Buffer{}, strings.NewReader(okDoc), cancelled()) }},
		{"massive output of an empty document", true, func() { gtree.OutputFromMarkdown(&bytes.Buffer{}, strings.NewReader(""), ms()) }},
		{"massive output, healthy", true, func() { gtree.OutputFromMarkdown(&bytes.Buffer{}, strings.NewReader(okDoc), ms()) }},
		{"MkdirFromRoot with an invalid name", false, func() { tmp(func(t string) { gtree.MkdirFromRoot(bad(), gtree.WithTargetDir(t)) }) }},
		{"MkdirFromMarkdown with invalid names", false, func() {
			tmp(func(t string) { gtree.MkdirFromMarkdown(strings.NewReader(badDoc), gtree.WithTargetDir(t)) })
		}},
		{"OutputFromMarkdown of a malformed document", false, func() { gtree.OutputFromMarkdown(&bytes.Buffer{}, strings.NewReader(malformed)) }},
		{"OutputFromMarkdown to a failing writer", false, func() { gtree.OutputFromMarkdown(brokenWriter{}, strings.NewReader(okDoc)) }},
		{"YAML output to a failing writer", false, func() { gtree.OutputFromRoot(brokenWriter{}, good(), gtree.WithEncodeYAML()) }},
		{"WalkFromRoot with a failing callback", false, func() { gtree.WalkFromRoot(good(), cbErr) }},
		{"WalkIterFromRoot left early", false, func() {
			for range gtree.WalkIterFromRoot(good()) {
				break
			}
		}},
		{"OutputFromRoot of a non-root node", false, func() { gtree.OutputFromRoot(&bytes.Buffer{}, good().Add("z")) }},
		{"dry run (Output route) to a failing writer", false, func() {
			gtree.OutputFromMarkdown(brokenWriter{}, strings.NewReader(okDoc), gtree.WithDryRun(), gtree.WithFileExtensions([]string{"b"}))
		}},
		{"dry run (MkdirFromRoot) to a writer that takes half of the report", false, func() {
			old := color.Output
			color.Output = &failWriter{failAt: 1, short: true}
			gtree.MkdirFromRoot(good(), gtree.WithDryRun(), gtree.WithFileExtensions([]string{"b"}))
			color.Output = old
		}},
		{"JSON / YAML / TOML From-Root output to a writer that takes half of a write", false, func() {
			gtree.OutputFromRoot(&failWriter{failAt: 1, short: true}, good(), gtree.WithEncodeJSON())
			gtree.OutputFromRoot(&failWriter{failAt: 1, short: true}, good(), gtree.WithEncodeYAML())
			gtree.OutputFromRoot(&failWriter{failAt: 2, short: true}, good(), gtree.WithEncodeTOML())
		}},
		{"text output to a writer that takes half of a write", false, func() {
			gtree.OutputFromRoot(&failWriter{failAt: 2, short: true}, good())
			gtree.OutputFromMarkdown(&failWriter{failAt: 2, short: true}, strings.NewReader(okDoc))
			gtree.OutputFromMarkdown(&failWriter{failAt: 1, short: true}, strings.NewReader(okDoc), ms())
		}},
	}
	hist := []hop{{K: "N", T: 0, Name: "r"}, {K: "A", T: 0, Node: 0, Name: "a"}, {K: "A", T: 0, Node: 1, Name: "b"}, {K: "A", T: 0, Node: 0, Name: "b"}}
	for _, cl := range calls {
		for _, R := range reps {
			if !c.Take() || c.Expired() {
				continue
			}
			c.StateN(1)
			c.Inc("repetition_histories")
			pan := ""
			for i := 0; i < R && pan == ""; i++ {
				pan = guardMaybeMassive(cl.massive, cl.f)
			}
			desc := fmt.Sprintf("%d x %s, then a fresh tree r(a(b),b)", R, cl.name)
			if pan != "" {
				c.Violation("C13|repeated-call-crashed-or-hung", desc+": "+pan, R, nil)
				continue
			}
			w := &c13World{}
			for _, h := range hist {
				w.apply(h)
			}
			for _, k := range []string{"T", "W", "J", "Y", "D", "F", "K", "V", "P", "PK", "PW", "PD"} {
				got, want, p := w.observe(k, 0)
				c.Eval()
				if p != "" || got != want {
					c.Violation("C13|result-depends-on-earlier-calls|"+k, fmt.Sprintf("%s, observation %s:\n got: %s %s\nwant: %s", desc, k, got, p, want), R, nil)
				}
			}
			var out string
			var err error
			p := guardMaybeMassive(true, func() { out, err, _ = sut.Output(c13MdDoc, ms()) })
			if p != "" || err != nil || out != c13MdWant {
				c.Violation("C13|result-depends-on-earlier-calls|massive-markdown", fmt.Sprintf("%s: massive OutputFromMarkdown gives %q err=%v %s", desc, out, err, p), R, nil)
			}
		}
	}
}

// c13SharedOptions: option values belong to the caller and may be used for any number of calls: the same []Option
// (and the same extension slice behind it) is handed to two calls in a row; the second must behave as the first did
// and as the tree predicts.
func c13SharedOptions(c *rep.Ctx) {
	type res struct{ out, err string }
	mkTree := func() *gtree.Node { r := gtree.NewRoot("r"); r.Add("a").Add("b"); r.Add("b"); r.Add("c.go"); return r }
	const doc = "- r\n  - a\n    - b\n  - b\n  - c.go\n"
	exts := []string{".go", "b", ".go", "a", "b"}
	sets := []struct {
		name string
		mk   func() []gtree.Option
	}{
		{"massive(context)", func() []gtree.Option { return []gtree.Option{gtree.WithMassive(context.Background())} }},
		{"massive(nil)", func() []gtree.Option { return []gtree.Option{gtree.WithMassive(nil)} }},
		{"extensions with repeats", func() []gtree.Option { return []gtree.Option{gtree.WithFileExtensions(exts)} }},
		{"massive + extensions + dry run", func() []gtree.Option {
			return []gtree.Option{gtree.WithMassive(context.Background()), gtree.WithFileExtensions(exts), gtree.WithDryRun()}
		}},
		{"dry run + extensions", func() []gtree.Option { return []gtree.Option{gtree.WithDryRun(), gtree.WithFileExtensions(exts)} }},
		{"custom branches + JSON", func() []gtree.Option { return append(sut.FmtOpts(fmtTuples[1]), gtree.WithEncodeJSON()) }},
		{"YAML", func() []gtree.Option { return []gtree.Option{gtree.WithEncodeYAML()} }},
	}
	ops := []struct {
		name string
		f    func(opts []gtree.Option, target string) res
	}{
		{"OutputFromRoot", func(o []gtree.Option, _ string) res {
			var b bytes.Buffer
			err := gtree.OutputFromRoot(&b, mkTree(), o...)
			return res{b.String(), fmt.Sprint(err)}
		}},
		{"OutputFromMarkdown", func(o []gtree.Option, _ string) res {
			var b bytes.Buffer
			err := gtree.OutputFromMarkdown(&b, strings.NewReader(doc), o...)
			return res{b.String(), fmt.Sprint(err)}
		}},
		{"WalkFromRoot", func(o []gtree.Option, _ string) res {
			var rows []string
			err := gtree.WalkFromRoot(mkTree(), func(w *gtree.WalkerNode) error { rows = append(rows, w.Row()+"|"+w.Path()); return nil }, o...)
			return res{strings.Join(rows, "\n"), fmt.Sprint(err)}
		}},
		{"MkdirFromRoot", func(o []gtree.Option, t string) res {
			var b bytes.Buffer
			old := color.Output
			color.Output = &b
			err := gtree.MkdirFromRoot(mkTree(), append(append([]gtree.Option{}, o...), gtree.WithTargetDir(t))...)
			color.Output = old
			return res{b.String() + fmt.Sprint(fsx.Snapshot(t).Kinds()), fmt.Sprint(err)}
		}},
		{"VerifyFromMarkdown", func(o []gtree.Option, t string) res {
			err := gtree.VerifyFromMarkdown(strings.NewReader(doc), append(append([]gtree.Option{}, o...), gtree.WithTargetDir(t))...)
			return res{"", sortLines(strings.ReplaceAll(fmt.Sprint(err), t, "<T>"))} // (paths are listed in map order)
		}},
	}
	// an option list that is a prefix of a longer slice (spare capacity behind it): the caller's elements behind the
	// prefix are the caller's
	for _, set := range sets {
		for _, op := range ops {
			if !c.Take() || c.Expired() {
				continue
			}
			c.StateN(1)
			base := set.mk()
			full := make([]gtree.Option, len(base)+3)
			copy(full, base)
			marker := gtree.WithStrictVerify()
			full[len(base)], full[len(base)+2] = marker, marker
			pan := guardMaybeMassive(strings.Contains(set.name, "massive"), func() {
				j := fsx.NewJail("c13c")
				defer j.Remove()
				op.f(full[:len(base)], j.Target)
			})
			c.Eval()
			desc := fmt.Sprintf("options {%s} passed as a prefix of a longer slice to %s", set.name, op.name)
			if pan != "" {
				c.Violation("C13|shared-options|crashed-or-hung", desc+": "+pan, 1, nil)
			}
			same := func(a, b gtree.Option) bool { return reflect.ValueOf(a).Pointer() == reflect.ValueOf(b).Pointer() }
			if !same(full[len(base)], marker) || full[len(base)+1] != nil || !same(full[len(base)+2], marker) {
				c.Violation("C13|shared-options|callers-slice-written-behind-the-prefix", desc+": the elements behind the prefix were overwritten", 1, nil)
			}
		}
	}
	for _, set := range sets {
		for _, op1 := range ops {
			for _, op2 := range ops {
				if !c.Take() || c.Expired() {
					continue
				}
				c.StateN(1)
				c.Inc("shared_option_histories")
				extsBefore := strings.Join(exts, "\x00")
				massive := strings.Contains(set.name, "massive")
				var fresh, second res
				pan := guardMaybeMassive(massive, func() {
					j0, j1, j2 := fsx.NewJail("c13s"), fsx.NewJail("c13s"), fsx.NewJail("c13s")
					defer j0.Remove()
					defer j1.Remove()
					defer j2.Remove()
					fresh = op2.f(set.mk(), j0.Target) // op2 with option values of its own
					shared := set.mk()
					op1.f(shared, j1.Target)
					second = op2.f(shared, j2.Target) // op2 with the values op1 has used
				})
				c.Eval()
				desc := fmt.Sprintf("options {%s}: %s, then %s with the same option values", set.name, op1.name, op2.name)
				if pan != "" {
					c.Violation("C13|shared-options|crashed-or-hung", desc+": "+pan, 1, nil)
					continue
				}
				if second != fresh {
					c.Violation("C13|shared-options|second-call-differs|"+op2.name, fmt.Sprintf("%s\nwith fresh values: %q err=%s\nwith used values:  %q err=%s", desc, fresh.out, fresh.err, second.out, second.err), 1, nil)
				}
				if strings.Join(exts, "\x00") != extsBefore {
					c.Violation("C13|shared-options|callers-slice-modified", fmt.Sprintf("%s: the extension list is now %q", desc, exts), 1, nil)
					exts = strings.Split(extsBefore, "\x00")
				}
			}
		}
	}
}

// parkedReader delivers its first chunk, reports that, and then blocks until release is closed (a producer that has gone
// quiet); parkedWriter takes its first write, reports that, and blocks likewise (a consumer that has stopped reading).
type parkedReader struct {
	first   string
	rest    string
	started chan<- struct{}
	release <-chan struct{}
	state   int
}

func (r *parkedReader) Read(p []byte) (int, error) {
	switch r.state {
	case 0:
		r.state = 1
		return copy(p, r.first), nil
	case 1:
		r.state = 2
		r.started <- struct{}{}
		<-r.release
		return copy(p, r.rest), nil
	}
	return 0, io.EOF
}

type parkedWriter struct {
	started chan<- struct{}
	release <-chan struct{}
	parked  bool
}

func (w *parkedWriter) Write(p []byte) (int, error) {
	if !w.parked {
		w.parked = true
		w.started <- struct{}{}
		<-w.release
	}
	return len(p), nil
}

// c13InFlight: K other massive calls are in the middle of their work (parked on their own reader or writer) while
// one more call is made on a tree of its own: it gives what the tree predicts, however many calls are in flight.
func c13InFlight(c *rep.Ctx) {
	hist := []hop{{K: "N", T: 0, Name: "r"}, {K: "A", T: 0, Node: 0, Name: "a"}, {K: "A", T: 0, Node: 1, Name: "b"}, {K: "A", T: 0, Node: 0, Name: "b"}}
	for _, kind := range []string{"readers", "writers"} {
		for _, K := range []int{1, 2, 9, 10, 11, 16, 33} {
			if !c.Take() || c.Expired() {
				continue
			}
			c.StateN(1)
			c.Inc("in_flight_histories")
			started := make(chan struct{}, K)
			release := make(chan struct{})
			var wg sync.WaitGroup
			for i := 0; i < K; i++ {
				wg.Add(1)
				go func(i int) {
					defer wg.Done()
					defer func() { recover() }()
					doc := fmt.Sprintf("- p%d\n  - q\n- s%d\n  - t\n", i, i)
					if kind == "readers" {
						gtree.OutputFromMarkdown(io.Discard, &parkedReader{first: doc, rest: "- late\n", started: started, release: release}, gtree.WithMassive(context.Background()))
					} else {
						gtree.OutputFromMarkdown(&parkedWriter{started: started, release: release}, strings.NewReader(doc), gtree.WithMassive(nil))
					}
				}(i)
			}
			parked := 0
			timeout := time.After(30 * time.Second)
		waitParked:
			for parked < K {
				select {
				case <-started:
					parked++
				case <-timeout:
					break waitParked
				}
			}
			desc := fmt.Sprintf("%d massive calls parked on their %s, then on a tree of its own", parked, kind)
			w := &c13World{}
			for _, h := range hist {
				w.apply(h)
			}
			for _, k := range []string{"P", "PW", "PD", "PK", "T", "J"} {
				got, want, p := w.observe(k, 0)
				c.Eval()
				if p != "" || got != want {
					c.Violation("C13|result-depends-on-calls-in-flight|"+k, fmt.Sprintf("%s, observation %s:\n got: %s %s\nwant: %s", desc, k, got, p, want), K, nil)
				}
			}
			var out string
			var err error
			p := guardMaybeMassive(true, func() { out, err, _ = sut.Output(c13MdDoc, gtree.WithMassive(context.Background())) })
			if p != "" || err != nil || out != c13MdWant {
				c.Violation("C13|result-depends-on-calls-in-flight|massive-markdown", fmt.Sprintf("%s: massive OutputFromMarkdown gives %q err=%v %s", desc, out, err, p), K, nil)
			}
			close(release)
			done := make(chan struct{})
			go func() { wg.Wait(); close(done) }()
			select {
			case <-done:
			case <-time.After(30 * time.Second):
				c.Violation("C13|parked-calls-did-not-finish-after-release", desc, K, nil)
			}
			if parked < K {
				c.Violation("C13|calls-in-flight-did-not-start", fmt.Sprintf("only %d of %d concurrent massive calls reached their %s within 30 s", parked, K, kind), K, nil)
			}
		}
	}
}

// c13EdgedNames: a tree whose names begin or end with blanks (legal names, legal directory names): operations that
// validate names (dry run, verify, mkdir; simple and massive) leave the tree as it is - every later observation and
// every later Add still sees the names as they were given.
func c13EdgedNames(c *rep.Ctx) {
	hist := []hop{{K: "N", T: 0, Name: "r"}, {K: "A", T: 0, Node: 0, Name: " a"}, {K: "A", T: 0, Node: 1, Name: "b "}, {K: "A", T: 0, Node: 0, Name: "b "}, {K: "A", T: 0, Node: 0, Name: "\tc"}}
	for _, first := range []string{"D", "V", "K", "PK", "PD", "X", "G"} {
		for _, then := range []string{"T", "J", "W", "Y", "F", "K", "P"} {
			if !c.Take() || c.Expired() {
				continue
			}
			c.StateN(1)
			c.Inc("edged_name_histories")
			w := &c13World{}
			for _, h := range hist {
				w.apply(h)
			}
			pan := guardMaybeMassive(true, func() { w.apply(hop{K: first, T: 0}) })
			// adding the same names again returns the existing children (no look-alike duplicates)
			w.apply(hop{K: "A", T: 0, Node: 0, Name: " a"})
			w.apply(hop{K: "A", T: 0, Node: 0, Name: "b "})
			got, want, p2 := w.observe(then, 0)
			c.Eval()
			if pan != "" || p2 != "" || got != want {
				c.Violation("C13|names-changed-by-an-earlier-operation|"+then, fmt.Sprintf("tree r(\" a\"(\"b \"), \"b \", \"\\tc\"): %s, re-Add of two names, then %s:\n got: %s %s%s\nwant: %s", first, then, got, pan, p2, want), 1, nil)
			}
		}
	}
}

// c13Nested: from inside a walk (callback, or the body of a range loop) the caller uses the same tree, or another one,
// for a further operation: that operation gives what the tree predicts, and everything returns.
func c13Nested(c *rep.Ctx) {
	hist := []hop{{K: "N", T: 0, Name: "r"}, {K: "A", T: 0, Node: 0, Name: "a"}, {K: "A", T: 0, Node: 1, Name: "b"}, {K: "A", T: 0, Node: 0, Name: "b"},
		{K: "N", T: 1, Name: "r"}, {K: "A", T: 1, Node: 0, Name: "x"}}
	for _, outer := range []string{"callback", "iterator", "massive-callback"} {
		for _, at := range []int{1, 2, 4} {
			for _, inner := range []string{"T", "W", "J", "D", "F", "P", "PW", "V"} {
				for _, t := range []int{0, 1} {
					if !c.Take() || c.Expired() {
						continue
					}
					c.StateN(1)
					c.Inc("nested_histories")
					w := &c13World{}
					for _, h := range hist {
						w.apply(h)
					}
					var got, want, ip string
					n := 0
					step := func() {
						if n++; n == at {
							got, want, ip = w.observe(inner, t)
						}
					}
					pan := guardMaybeMassive(true, func() {
						switch outer {
						case "callback":
							gtree.WalkFromRoot(w.real[0][0], func(*gtree.WalkerNode) error { step(); return nil })
						case "massive-callback":
							gtree.WalkFromRoot(w.real[0][0], func(*gtree.WalkerNode) error { step(); return nil }, gtree.WithMassive(context.Background()))
						case "iterator":
							for range gtree.WalkIterFromRoot(w.real[0][0]) {
								step()
							}
						}
					})
					c.Eval()
					desc := fmt.Sprintf("walk of tree 0 (%s), at its node %d: observation %s on tree %d", outer, at, inner, t)
					if pan != "" || ip != "" {
						c.Violation("C13|nested-operation-crashed-or-hung|"+outer, desc+": "+pan+ip, at, nil)
						continue
					}
					if got != want {
						c.Violation("C13|nested-operation-result|"+inner, fmt.Sprintf("%s:\n got: %s\nwant: %s", desc, got, want), at, nil)
					}
				}
			}
		}
	}
}

func init() {
	props["C13"] = func(c *rep.Ctx) {
		maxL := 6
		if c.Thorough() {
			maxL = 7
		}
		const maxNodes = 4
		c.Bound("history_length", fmt.Sprint(maxL))
		c.Bound("nodes_per_tree", fmt.Sprint(maxNodes))
		obs := []string{"T", "W", "J", "Y", "D", "F", "K", "P"}
		addNames := []string{"a", "b", "x/y"} // "x/y" is a legal node name for output and walk, invalid for mkdir/verify
		// kids[t][node][name] tracks which Adds create nodes, so node indices are exact
		type st struct {
			size [2]int
			kids [2][maxNodes]map[string]bool
			held [2]bool
		}
		var rec func(hist []hop, s *st, L int)
		rec = func(hist []hop, s *st, L int) {
			if c.Expired() {
				return
			}
			if len(hist) == L-1 {
				// last step: every observation on every live tree, and the independent Markdown call
				for t := 0; t < 2; t++ {
					if s.size[t] == 0 {
						continue
					}
					ob := obs
					if s.held[t] {
						ob = append(append([]string{}, obs...), "R")
					}
					for _, k := range ob {
						if k == "P" && len(hist) > 5 {
							continue // the massive text output (real goroutines) is observed on histories of up to 6 steps
						}
						if k == "K" {
							// the real mkdir (a jail per case) is explored where validation state can matter:
							// histories with the hostile name, or with a dry-run / verify step before
							rel := false
							for _, h := range hist {
								if h.Name == "x/y" || h.K == "D" || h.K == "V" {
									rel = true
								}
							}
							if !rel || len(hist) > 5 {
								continue
							}
						}
						if !c.Take() {
							continue
						}
						c.StateN(1)
						h := append(hist, hop{K: k, T: t})
						if c.R.States%50000 == 1 {
							c.Sample(fmt.Sprint(h))
						}
						c13Run(c, h)
					}
				}
				if len(hist) > 0 && c.Take() {
					c.StateN(1)
					c13Run(c, append(hist, hop{K: "M"}))
				}
				return
			}
			for t := 0; t < 2; t++ {
				if s.size[t] == 0 {
					if t == 1 && s.size[0] == 0 {
						continue // symmetry: the first tree created is tree 0
					}
					s.size[t] = 1
					s.kids[t][0] = map[string]bool{}
					rec(append(hist, hop{K: "N", T: t, Name: "r"}), s, L)
					s.size[t] = 0
					continue
				}
				for n := 0; n < s.size[t]; n++ {
					for _, nm := range addNames {
						if nm == "x/y" && (len(hist) > 3 || t == 1) {
							continue // the hostile name only early and on tree 0 (keeps the space within budget)
						}
						h := hop{K: "A", T: t, Node: n, Name: nm}
						if s.kids[t][n][nm] {
							rec(append(hist, h), s, L) // re-Add of an existing name
							continue
						}
						if s.size[t] >= maxNodes {
							continue
						}
						s.kids[t][n][nm] = true
						s.kids[t][s.size[t]] = map[string]bool{}
						s.size[t]++
						rec(append(hist, h), s, L)
						s.size[t]--
						delete(s.kids[t][n], nm)
					}
				}
				// operations in the middle of a history (they reset library-internal state)
				for _, k := range []string{"T", "W", "D", "V", "F", "J"} {
					rec(append(hist, hop{K: k, T: t}), s, L)
				}
				if len(hist) <= 3 {
					rec(append(hist, hop{K: "Y", T: t}), s, L)
				}
				if len(hist) <= 2 {
					rec(append(hist, hop{K: "P", T: t}), s, L)
				}
				if len(hist) <= 4 && t == 0 {
					rec(append(hist, hop{K: "X", T: t}), s, L)
				}
				if len(hist) <= 4 && len(hist) >= 2 && t == 0 {
					rec(append(hist, hop{K: "Q", T: t}), s, L)
				}
				if len(hist) == 3 && t == 0 {
					rec(append(hist, hop{K: "Z", T: t}), s, L)
				}
				if (len(hist) == 2 || len(hist) == 4) && t == 0 {
					rec(append(hist, hop{K: "H", T: t}), s, L)
				}
				if (len(hist) == 3 || len(hist) == 4) && t == 0 {
					rec(append(hist, hop{K: "G", T: t}), s, L)
				}
				if !s.held[t] && t == 0 {
					s.held[t] = true
					rec(append(hist, hop{K: "S", T: t}), s, L)
					s.held[t] = false
				}
			}
			if len(hist) > 0 {
				rec(append(hist, hop{K: "M"}), s, L)
			}
			if len(hist) >= 2 && len(hist) <= 4 && hist[len(hist)-1].K != "U" {
				rec(append(hist, hop{K: "U"}), s, L)
			}
		}
		for L := 2; L <= maxL && !c.Expired(); L++ {
			rec(nil, &st{}, L)
		}
		c13Repeat(c)
		c13SharedOptions(c)
		c13Nested(c)
		c13EdgedNames(c)
		c13InFlight(c)
		c13Long(c)
		c.R.Nontrivial = c.R.States
		if c13Jail != nil {
			c13Jail.Remove()
		}
	}
	replayers["c13"] = func(raw json.RawMessage) bool {
		var r c13Replay
		if json.Unmarshal(raw, &r) != nil {
			return false
		}
		c := rep.New("C13", "replay", "quick", 0, 1, 0, 0)
		c13Run(c, r.History)
		fmt.Println("history:", r.History)
		for k, v := range c.R.ViolEx {
			fmt.Println(k, v[0].Detail)
		}
		return len(c.R.ViolCount) > 0
	}
}
