package main

import (
	"encoding/json"
	"fmt"
	"strings"

	"github.com/ddddddO/gtree"

	"verifharness/enum"
	"verifharness/fsx"
	"verifharness/rep"
	"verifharness/sut"
)

// ---- C15: equivalent spellings give byte-identical results (metamorphic; no reference model)

var c15Units = []string{"\t", " ", "  ", "   ", "    ", "        "}

type c15Replay struct {
	Kind      string `json:"kind"`
	Canonical string `json:"canonical_doc"`
	Doc       string `json:"doc"`
	Mode      string `json:"mode"`
}

func c15Modes(mode string) []gtree.Option {
	switch mode {
	case "json":
		return []gtree.Option{gtree.WithEncodeJSON()}
	case "yaml":
		return []gtree.Option{gtree.WithEncodeYAML()}
	case "toml":
		return []gtree.Option{gtree.WithEncodeTOML()}
	case "dry":
		return []gtree.Option{gtree.WithDryRun(), gtree.WithFileExtensions([]string{"b"})}
	case "massive":
		return extraOpts("massive", "")
	}
	return nil
}

type c15Canon struct {
	doc   string
	out   map[string]string
	roots int
	fs    fsx.Snap
	fsOK  bool
}

func c15Result(doc, mode string) string {
	out, err, pan := sut.Output(doc, c15Modes(mode)...)
	return fmt.Sprintf("panic=%v err=%v out=%q", pan != "", err, out)
}

func c15Mkdir(doc string) (fsx.Snap, string) {
	j := fsx.NewJail("c15")
	defer j.Remove()
	var err error
	pan := sut.Guard(func() {
		err = gtree.MkdirFromMarkdown(strings.NewReader(doc), gtree.WithTargetDir(j.Target), gtree.WithFileExtensions([]string{"b"}))
	})
	snap := fsx.Snapshot(j.Target)
	var verr error
	pan2 := sut.Guard(func() {
		verr = gtree.VerifyFromMarkdown(strings.NewReader(doc), gtree.WithTargetDir(j.Target), gtree.WithStrictVerify())
	})
	// the verifier lists paths in map-iteration order: compare the lists as sorted sets
	return snap, sortLines(strings.ReplaceAll(fmt.Sprintf("mkdir panic=%v verify panic=%v | mkdir err=%v | verify err=\n%v\n", pan != "", pan2 != "", err, verr), j.Target, "<T>"))
}

func c15Check(c *rep.Ctx, cn *c15Canon, d []int, names []string, sp enum.Spelling, idx int64) {
	doc := enum.Spell(d, names, sp)
	c.Eval()
	c.Trans(1)
	modes := []string{"text"}
	if idx%16 == 0 {
		modes = append(modes, "json", "yaml", "dry")
		if cn.roots == 1 {
			modes = append(modes, "toml")
		}
	}
	for _, m := range modes {
		want, ok := cn.out[m]
		if !ok {
			want = c15Result(cn.doc, m)
			cn.out[m] = want
		}
		got := c15Result(doc, m)
		if got != want {
			c.Violation("C15|spelling-changes-result|"+m, fmt.Sprintf("canonical=%q -> %s\nspelling=%q -> %s", cn.doc, want, doc, got), len(doc), c15Replay{"c15", cn.doc, doc, m})
		}
	}
	if idx%256 == 0 {
		if !cn.fsOK {
			s, v := c15Mkdir(cn.doc)
			cn.fs, cn.fsOK = s, true
			cn.out["fsverdict"] = v
		}
		s, v := c15Mkdir(doc)
		c.Inc("fs_comparisons")
		if !s.Equal(cn.fs) || v != cn.out["fsverdict"] {
			c.Violation("C15|spelling-changes-result|mkdir-verify", fmt.Sprintf("canonical=%q -> %v %s\nspelling=%q -> %v %s", cn.doc, cn.fs, cn.out["fsverdict"], doc, s, v), len(doc), c15Replay{"c15", cn.doc, doc, "fs"})
		}
	}
}

var bulletAlpha = []byte("-*+")

func init() {
	props["C15"] = func(c *rep.Ctx) {
		fullN := 3
		pairN := 5
		if c.Thorough() {
			fullN = 4
			pairN = 6
		}
		c.Bound("full_product_nodes", fmt.Sprint(fullN))
		c.Bound("pairwise_nodes", fmt.Sprint(pairN))
		names2 := []string{"a", "a-b"}
		var idx int64
		// Part 1: the whole spelling product for every forest with n <= fullN nodes
		for n := 1; n <= fullN && !c.Expired(); n++ {
			alpha := names2
			if n == 4 {
				alpha = []string{"a", "b"}
			}
			enum.DepthSeqs(n, func(d0 []int) {
				d := append([]int{}, d0...)
				roots := 0
				for _, x := range d {
					if x == 1 {
						roots++
					}
				}
				enum.Tuples(n, len(alpha), func(t []int) {
					if !c.Take() || c.Expired() {
						return
					}
					names := enum.Pick(alpha, t)
					cn := &c15Canon{doc: enum.Spell(d, names, enum.Canonical), out: map[string]string{}, roots: roots}
					c.StateN(1)
					c.Trace()
					if c.R.States%40 == 1 {
						c.Sample(map[string]any{"canonical": cn.doc, "example_spelling": enum.Spell(d, names, enum.Spelling{Unit: "\t", Bullets: []byte("*+"), Heading: true, Gaps: []int{2, 1}, CRLF: true, NoFinal: true})})
					}
					for _, unit := range c15Units {
						enum.Tuples(n, 3, func(bt []int) {
							bl := make([]byte, n)
							for i, x := range bt {
								bl[i] = bulletAlpha[x]
							}
							for _, heading := range []bool{false, true} {
								enum.Tuples(n+1, 3, func(gt []int) {
									gaps := append([]int{}, gt...)
									for _, crlf := range []bool{false, true} {
										for _, nofinal := range []bool{false, true} {
											idx++
											c15Check(c, cn, d, names, enum.Spelling{Unit: unit, Bullets: bl, Heading: heading, Gaps: gaps, CRLF: crlf, NoFinal: nofinal}, idx)
										}
									}
								})
							}
						})
					}
					c.Nontrivial()
				})
			})
		}
		// Part 2: larger forests, every pair of dimensions varied jointly (pattern families for bullets and gaps)
		for n := fullN + 1; n <= pairN && !c.Expired(); n++ {
			bulletPats := [][]byte{[]byte("-"), []byte("*"), []byte("+"), []byte("-*+"), []byte("*+-"), []byte("+-*"), []byte("-+")}
			gapPats := [][]int{nil}
			all1, all2, alt := make([]int, n+1), make([]int, n+1), make([]int, n+1)
			for i := range all1 {
				all1[i], all2[i], alt[i] = 1, 2, 1+i%2
			}
			gapPats = append(gapPats, all1, all2, alt)
			for i := 0; i <= n; i++ {
				for k := 1; k <= 2; k++ {
					g := make([]int, n+1)
					g[i] = k
					gapPats = append(gapPats, g)
				}
			}
			dims := []int{len(c15Units), len(bulletPats), 2, len(gapPats), 2, 2}
			canonIdx := []int{2, 0, 0, 0, 0, 0}
			enum.DepthSeqs(n, func(d0 []int) {
				d := append([]int{}, d0...)
				roots := 0
				for _, x := range d {
					if x == 1 {
						roots++
					}
				}
				enum.Tuples(n, 2, func(t []int) {
					if !c.Take() || c.Expired() {
						return
					}
					names := enum.Pick([]string{"a", "b"}, t)
					cn := &c15Canon{doc: enum.Spell(d, names, enum.Canonical), out: map[string]string{}, roots: roots}
					c.StateN(1)
					c.Trace()
					for a := 0; a < len(dims); a++ {
						for b := a + 1; b < len(dims); b++ {
							for va := 0; va < dims[a]; va++ {
								for vb := 0; vb < dims[b]; vb++ {
									v := append([]int{}, canonIdx...)
									v[a], v[b] = va, vb
									idx++
									c15Check(c, cn, d, names, enum.Spelling{Unit: c15Units[v[0]], Bullets: bulletPats[v[1]], Heading: v[2] == 1, Gaps: gapPats[v[3]], CRLF: v[4] == 1, NoFinal: v[5] == 1}, idx)
								}
							}
						}
					}
					c.Nontrivial()
				})
			})
		}
		// Part 2b: size families (wide fan-out, deep chain, many roots) under a cross-section of the spelling family
		for size := 2; size <= 40 && !c.Expired(); size += 1 {
			if !c.Take() {
				continue
			}
			var dw, dc, dr []int
			var nw, nc, nr []string
			dw, nw = append(dw, 1), append(nw, "wide")
			for i := 0; i < size; i++ {
				dw = append(dw, 2)
				nw = append(nw, fmt.Sprintf("c%02d", i))
				dc = append(dc, i+1)
				nc = append(nc, fmt.Sprintf("n%02d", i))
				dr = append(dr, 1, 2)
				nr = append(nr, fmt.Sprintf("root%02d", i), "k")
			}
			for _, t := range []struct {
				d []int
				n []string
			}{{dw, nw}, {dc, nc}, {dr, nr}} {
				roots := 0
				for _, x := range t.d {
					if x == 1 {
						roots++
					}
				}
				cn := &c15Canon{doc: enum.Spell(t.d, t.n, enum.Canonical), out: map[string]string{}, roots: roots}
				c.StateN(1)
				for ui, unit := range c15Units {
					for _, heading := range []bool{false, true} {
						for _, crlf := range []bool{false, true} {
							idx++
							gaps := make([]int, len(t.d)+1)
							gaps[(ui+size)%len(gaps)] = 1 + ui%2
							c15Check(c, cn, t.d, t.n, enum.Spelling{Unit: unit, Bullets: []byte("-*+"), Heading: heading, Gaps: gaps, CRLF: crlf, NoFinal: ui%2 == 0}, idx*16)
						}
					}
				}
			}
		}
		// Part 2c: runs of several blank lines at one position (before a root, before a first-level item, before
		// a deeply nested item, at the end), every forest with up to runN nodes, every unit
		runN := 5
		if c.Thorough() {
			runN = 6
		}
		c.Bound("blank_run_nodes", fmt.Sprint(runN))
		for n := 2; n <= runN && !c.Expired(); n++ {
			enum.DepthSeqs(n, func(d0 []int) {
				d := append([]int{}, d0...)
				roots := 0
				for _, x := range d {
					if x == 1 {
						roots++
					}
				}
				if !c.Take() || c.Expired() {
					return
				}
				names := make([]string, n)
				for i := range names {
					names[i] = string(rune('a' + i%3))
				}
				cn := &c15Canon{doc: enum.Spell(d, names, enum.Canonical), out: map[string]string{}, roots: roots}
				c.StateN(1)
				c.Inc("blank_run_forests")
				for ui, unit := range c15Units {
					for pos := 0; pos <= n; pos++ {
						for _, g := range []int{3, 4, 5, 6, 7, 8} {
							gaps := make([]int, n+1)
							gaps[pos] = g
							idx++
							c15Check(c, cn, d, names, enum.Spelling{Unit: unit, Bullets: []byte("-*"), Heading: ui%2 == 1 && g%4 == 0, Gaps: gaps, CRLF: g%4 == 0 && pos%2 == 0}, idx)
						}
					}
				}
			})
		}
		// Part 2d: white-space-only lines made of other white space than blanks and tabs (form feed, vertical tab, every
		// Unicode space; enum.ExoticBlanks), one such line at every position of every forest with up to four nodes, every
		// unit; text output, and for single roots also text output with the massive option (the order is fixed there)
		for n := 1; n <= 4 && !c.Expired(); n++ {
			enum.DepthSeqs(n, func(d0 []int) {
				d := append([]int{}, d0...)
				roots := 0
				for _, x := range d {
					if x == 1 {
						roots++
					}
				}
				if !c.Take() || c.Expired() {
					return
				}
				names := make([]string, n)
				for i := range names {
					names[i] = string(rune('a' + i%3))
				}
				cn := &c15Canon{doc: enum.Spell(d, names, enum.Canonical), out: map[string]string{}, roots: roots}
				c.StateN(1)
				c.Inc("exotic_blank_forests")
				for ui, unit := range c15Units {
					for pos := 0; pos <= n; pos++ {
						for g := 9; g < 9+len(enum.ExoticBlanks); g++ {
							gaps := make([]int, n+1)
							gaps[pos] = g
							sp := enum.Spelling{Unit: unit, Bullets: []byte("-*"), Gaps: gaps, CRLF: (g+pos)%4 == 0, NoFinal: (g+ui)%5 == 0}
							idx++
							c15Check(c, cn, d, names, sp, idx|1) // (text only; the other modes follow below on a slice)
							if (g+pos+ui)%8 == 0 {
								c15Check(c, cn, d, names, sp, 16)
							}
							if roots == 1 {
								doc := enum.Spell(d, names, sp)
								want, ok := cn.out["massive"]
								if !ok {
									var o string
									var e error
									p := guardMaybeMassive(true, func() { o, e, _ = sut.Output(cn.doc, extraOpts("massive", "")...) })
									want = fmt.Sprintf("panic=%v err=%v out=%q", p != "", e, o)
									cn.out["massive"] = want
								}
								var o string
								var e error
								p := guardMaybeMassive(true, func() { o, e, _ = sut.Output(doc, extraOpts("massive", "")...) })
								c.Eval()
								if got := fmt.Sprintf("panic=%v err=%v out=%q", p != "", e, o); got != want {
									c.Violation("C15|spelling-changes-result|text-massive", fmt.Sprintf("canonical=%q -> %s\nspelling=%q -> %s", cn.doc, want, doc, got), len(doc), c15Replay{"c15", cn.doc, doc, "massive"})
								}
							}
						}
					}
				}
			})
		}
		// Part 2e: mixed root styles: the first k roots as list items, the later ones as headings (every forest with at
		// least two roots, n <= 5, over three names so that the same row text occurs above and below a heading)
		for n := 2; n <= 5 && !c.Expired(); n++ {
			enum.DepthSeqs(n, func(d0 []int) {
				d := append([]int{}, d0...)
				roots := 0
				for _, x := range d {
					if x == 1 {
						roots++
					}
				}
				if roots < 2 {
					return
				}
				enum.Tuples(n, 2, func(t []int) {
					if !c.Take() || c.Expired() {
						return
					}
					names := enum.Pick([]string{"a", "b"}, t)
					cn := &c15Canon{doc: enum.Spell(d, names, enum.Canonical), out: map[string]string{}, roots: roots}
					c.StateN(1)
					c.Inc("mixed_root_style_forests")
					for k := 1; k < roots; k++ {
						for ui, unit := range []string{"  ", "\t", "    "} {
							idx++
							c15Check(c, cn, d, names, enum.Spelling{Unit: unit, Bullets: []byte("-*"), Heading: true, ListRootsFirst: k, CRLF: ui == 1}, idx*16)
						}
					}
				})
			})
		}
		// Part 2f: rows whose length (before the line end) lies around 4096 and 8192 bytes, by a long name and by wide
		// indentation, in the CRLF and the LF spelling, with and without a final newline
		for _, ln := range []int{4090, 4093, 4094, 4095, 4096, 4097, 8190, 8191, 8192} {
			if !c.Take() || c.Expired() {
				continue
			}
			c.StateN(1)
			c.Inc("row_length_cases")
			// by name: "- " + name has ln bytes
			d, names := []int{1, 2, 2}, []string{"r", strings.Repeat("n", ln-4), "abc"}
			cn := &c15Canon{doc: enum.Spell(d, names, enum.Canonical), out: map[string]string{}, roots: 1}
			for _, crlf := range []bool{true, false} {
				for _, nofinal := range []bool{false, true} {
					idx++
					c15Check(c, cn, d, names, enum.Spelling{Unit: "  ", Bullets: []byte("-"), CRLF: crlf, NoFinal: nofinal}, idx*16)
				}
			}
			// by indentation: one level of (ln - 5) blanks in front of "- abc"
			d2, names2 := []int{1, 2, 2}, []string{"r", "abc", "def"}
			cn2 := &c15Canon{doc: enum.Spell(d2, names2, enum.Canonical), out: map[string]string{}, roots: 1}
			for _, crlf := range []bool{true, false} {
				idx++
				c15Check(c, cn2, d2, names2, enum.Spelling{Unit: strings.Repeat(" ", ln-5), Bullets: []byte("-"), CRLF: crlf}, idx*16)
			}
		}
		// Part 2d: deep chains in every unit (the same depth is 1 ... 8 times as many columns)
		for _, depth := range []int{13, 26, 51, 60} {
			if !c.Take() || c.Expired() {
				continue
			}
			var d []int
			var names []string
			for l := 1; l <= depth; l++ {
				d = append(d, l)
				names = append(names, fmt.Sprintf("n%d", l))
			}
			d = append(d, 2)
			names = append(names, "tail")
			cn := &c15Canon{doc: enum.Spell(d, names, enum.Canonical), out: map[string]string{}, roots: 1}
			c.StateN(1)
			c.Inc("deep_chain_cases")
			for ui, unit := range c15Units {
				idx++
				c15Check(c, cn, d, names, enum.Spelling{Unit: unit, Bullets: []byte("-+"), Heading: ui%2 == 1, CRLF: ui%3 == 0}, idx*16)
			}
		}
		// Part 3: hostile names at n <= 2, full product (names with bullets or '#' at their edges, blanks inside)
		{
			// (incl. names made of bullet characters only: with the same character as bullet such a row looks like a rule)
			host := []string{"x y", "C#", "#inc", "--", "- -", "**", "caf\xe9"}
			if c.Thorough() {
				host = []string{"x y", "+x*", "é", "- q", "C#", "#inc", "a#b", "*", "--", "- -", "**", "---", "++", "* * *", "__"}
			}
			for n := 1; n <= 2 && !c.Expired(); n++ {
				enum.DepthSeqs(n, func(d0 []int) {
					d := append([]int{}, d0...)
					enum.Tuples(n, len(host), func(t []int) {
						if !c.Take() {
							return
						}
						names := enum.Pick(host, t)
						cn := &c15Canon{doc: enum.Spell(d, names, enum.Canonical), out: map[string]string{}, roots: 2 - (d[len(d)-1] - 1)}
						c.StateN(1)
						for _, unit := range c15Units {
							enum.Tuples(n, 3, func(bt []int) {
								bl := make([]byte, n)
								for i, x := range bt {
									bl[i] = bulletAlpha[x]
								}
								for _, heading := range []bool{false, true} {
									enum.Tuples(n+1, 3, func(gt []int) {
										for _, crlf := range []bool{false, true} {
											idx++
											c15Check(c, cn, d, names, enum.Spelling{Unit: unit, Bullets: bl, Heading: heading, Gaps: append([]int{}, gt...), CRLF: crlf}, idx)
										}
									})
								}
							})
						}
					})
				})
			}
		}
	}
	replayers["c15"] = func(raw json.RawMessage) bool {
		var r c15Replay
		if json.Unmarshal(raw, &r) != nil {
			return false
		}
		if r.Mode == "fs" {
			s1, v1 := c15Mkdir(r.Canonical)
			s2, v2 := c15Mkdir(r.Doc)
			fmt.Printf("canonical %q -> %v %s\nspelling  %q -> %v %s\n", r.Canonical, s1, v1, r.Doc, s2, v2)
			return !s1.Equal(s2) || v1 != v2
		}
		a, b := c15Result(r.Canonical, r.Mode), c15Result(r.Doc, r.Mode)
		fmt.Printf("canonical %q -> %s\nspelling  %q -> %s\n", r.Canonical, a, r.Doc, b)
		return a != b
	}
}
