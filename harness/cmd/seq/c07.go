package main

import (
	"bytes"
	"encoding/json"
	"fmt"
	"os"
	"path/filepath"
	"strings"

	"github.com/ddddddO/gtree"
	"github.com/fatih/color"

	"verifharness/enum"
	"verifharness/fsx"
	"verifharness/model"
	"verifharness/rep"
	"verifharness/sut"
)

// ---- C07: mkdir never escapes the target directory and validates names first

var c07Names = []string{"x", "..", ".", "a/b", "/abs", "../x", "x/..", "../../y", "abs", "abs/", "/", "//", "a\\b", "..x"} // "abs" is the valid twin of "/abs" and "abs/"; a backslash is an ordinary character of a path element here, and "..x" is an ordinary name

func validElement(n string) bool {
	return n != "" && n != "." && n != ".." && !strings.Contains(n, "/")
}

type c07Replay struct {
	Kind  string   `json:"kind"`
	Depth []int    `json:"depth"`
	Names []string `json:"names"`
	Route string   `json:"route"` // md | root | md-dry-output | md-dry-mkdir | root-dry
	Exts  []string `json:"exts"`
	Extra string   `json:"extra_options,omitempty"`
	// TargetForm: "" absolute | "rel" (relative to a working directory the process has just changed to) |
	// "cwd" (no target option, the working directory is the target)
	TargetForm string `json:"target_form,omitempty"`
	Bullets    string `json:"bullets,omitempty"` // bullet characters of the Markdown spelling, cycled per line ("" = all '-')
	// Pre: entries planted in the target before the call (fsx.Populate kinds; 'X' = a dangling symbolic link that
	// points to a name outside the target, 'L' = a dangling one that points inside, 'l' = a link to a directory outside)
	Pre map[string]byte `json:"pre,omitempty"`
}

// options that do not concern Mkdir: names are validated and nothing leaves the target whatever else is passed
var c07Extras = []string{"json", "yaml", "toml", "noiter", "strict", "fmt", "nil,toml", "yaml,strict,noiter"}

func c07Case(c *rep.Ctx, r c07Replay) {
	f := enum.Build(r.Depth, r.Names)
	doc := enum.Spell(r.Depth, r.Names, enum.Canonical)
	if r.Bullets != "" {
		doc = enum.Spell(r.Depth, r.Names, enum.Spelling{Unit: "  ", Bullets: []byte(r.Bullets)})
	}
	j := fsx.NewJail("c07")
	defer j.Remove()
	if len(r.Pre) > 0 {
		fsx.Populate(j.Target, r.Pre)
	}
	before := fsx.Snapshot(j.Root)
	opts := []gtree.Option{gtree.WithTargetDir(j.Target)}
	if len(r.Exts) > 0 {
		opts = append(opts, gtree.WithFileExtensions(r.Exts))
	}
	tprefix := "p/q/target"
	switch r.TargetForm {
	case "blank-suffix", "newline-suffix", "blank-prefix", "blanks-only":
		// a target directory whose name begins or ends with white space (or is nothing else): it is a name like any other
		name := map[string]string{"blank-suffix": "target ", "newline-suffix": "target\n", "blank-prefix": " target", "blanks-only": "  "}[r.TargetForm]
		dir := filepath.Join(filepath.Dir(j.Target), name)
		os.Mkdir(dir, 0o755)
		before = fsx.Snapshot(j.Root)
		opts[0] = gtree.WithTargetDir(dir)
		tprefix = "p/q/" + name
	case "rel":
		wd, _ := os.Getwd()
		os.Chdir(filepath.Dir(j.Target))
		defer os.Chdir(wd)
		opts[0] = gtree.WithTargetDir(filepath.Base(j.Target))
	case "cwd":
		wd, _ := os.Getwd()
		os.Chdir(j.Target)
		defer os.Chdir(wd)
		opts[0] = nil
	}
	opts = append(opts, extraOpts(r.Extra, "")...)
	var err error
	var buf bytes.Buffer
	pan := guardMaybeMassive(strings.Contains(r.Extra, "massive"), func() {
		switch r.Route {
		case "md":
			err = gtree.MkdirFromMarkdown(strings.NewReader(doc), opts...)
		case "root":
			err = gtree.MkdirFromRoot(sut.BuildRoot(f[0]), opts...)
		case "md-dry-output":
			err = gtree.OutputFromMarkdown(&buf, strings.NewReader(doc), append(opts, gtree.WithDryRun())...)
		case "md-dry-mkdir":
			old := color.Output
			color.Output = &buf
			err = gtree.MkdirFromMarkdown(strings.NewReader(doc), append(opts, gtree.WithDryRun())...)
			color.Output = old
		case "root-dry":
			old := color.Output
			color.Output = &buf
			err = gtree.MkdirFromRoot(sut.BuildRoot(f[0]), append(opts, gtree.WithDryRun())...)
			color.Output = old
		}
	})
	after := fsx.Snapshot(j.Root)
	c.Eval()
	c.Trans(len(r.Depth))
	size := len(r.Depth)*100 + len(strings.Join(r.Names, ""))
	desc := fmt.Sprintf("route=%s doc=%q exts=%v", r.Route, doc, r.Exts)
	if r.Extra != "" {
		desc += " extra options=" + r.Extra
	}
	if pan != "" {
		c.Violation("C07|panic|"+r.Route, desc+": "+pan, size, r)
		return
	}
	if d := fsx.Diff(before.Outside(tprefix), after.Outside(tprefix)); d != "" {
		c.Violation("C07|escaped-target|"+r.Route, fmt.Sprintf("%s: outside the target: %s (err=%v)", desc, d, err), size, r)
	}
	invalid := ""
	pos := "child"
	for i, n := range r.Names {
		if !validElement(n) {
			invalid = n
			if r.Depth[i] == 1 {
				pos = "root"
			}
			break
		}
	}
	if invalid == "" && err == nil && !strings.Contains(r.Route, "dry") && len(r.Pre) == 0 {
		// a valid tree: it is created inside the target (the first root is there), wherever the process has been before
		if _, ok := after.Under(tprefix)[r.Names[0]]; !ok {
			c.Violation("C07|valid-tree-not-created-in-target|"+r.Route, fmt.Sprintf("%s target form %q: nil but %q is not in the target; changes: %s", desc, r.TargetForm, r.Names[0], fsx.Diff(before, after)), size, r)
		}
	}
	if invalid != "" {
		kind := "dotdot"
		if strings.Contains(invalid, "/") {
			kind = "slash"
		}
		if err == nil {
			c.Violation("C07|invalid-name-accepted|"+r.Route+"|"+pos+"|"+kind, fmt.Sprintf("%s: name %q is not a single valid path element but the call returned nil (target now: %s)", desc, invalid, fsx.Diff(before.Under(tprefix), after.Under(tprefix))), size, r)
		}
		// (with the massive option valid roots may already exist when the call fails: the statement exempts it)
		if d := fsx.Diff(before.Under(tprefix), after.Under(tprefix)); d != "" && err != nil && !strings.Contains(r.Extra, "massive") {
			c.Violation("C07|created-despite-rejection|"+r.Route+"|"+pos+"|"+kind, fmt.Sprintf("%s: err=%v but the target changed: %s", desc, err, d), size, r)
		}
	}
}

func init() {
	props["C07"] = func(c *rep.Ctx) {
		maxN := 3
		if c.Thorough() {
			maxN = 4
		}
		c.Bound("nodes", fmt.Sprint(maxN))
		c.Bound("hostile_names", fmt.Sprintf("%q", c07Names))
		for n := 1; n <= maxN && !c.Expired(); n++ {
			enum.DepthSeqs(n, func(d0 []int) {
				d := append([]int{}, d0...)
				roots := 0
				for _, x := range d {
					if x == 1 {
						roots++
					}
				}
				enum.Tuples(n, len(c07Names), func(t []int) {
					hostile := false
					for _, x := range t {
						if x != 0 {
							hostile = true
						}
					}
					for _, x := range t {
						if x == 8 {
							// "abs" alone is a valid name: hostile only together with one of the others
						}
					}
					hostile = false
					for _, x := range t {
						if x != 0 && x != 8 {
							hostile = true
						}
					}
					if !hostile {
						return
					}
					if !c.Take() || c.Expired() {
						return
					}
					names := enum.Pick(c07Names, t)
					c.StateN(1)
					c.Nontrivial()
					c.Trace()
					if c.R.States%400 == 1 {
						c.Sample(enum.Spell(d, names, enum.Canonical))
					}
					routes := []string{"md", "md-dry-output", "md-dry-mkdir"}
					if roots == 1 {
						routes = append(routes, "root", "root-dry")
					}
					for _, rt := range routes {
						for _, ex := range [][]string{nil, {"x"}} {
							if n == 4 && ex != nil {
								continue
							}
							c07Case(c, c07Replay{Kind: "c07", Depth: d, Names: names, Route: rt, Exts: ex})
						}
						if n <= 3 && (rt == "md" || rt == "md-dry-mkdir") && roots >= 2 {
							// several roots written with different bullets, with the massive option
							c07Case(c, c07Replay{Kind: "c07", Depth: d, Names: names, Route: rt, Extra: "massive", Bullets: "-*+"})
							c07Case(c, c07Replay{Kind: "c07", Depth: d, Names: names, Route: rt, Extra: "massive", Bullets: "+-"})
						}
						if n <= 2 && rt != "md-dry-output" {
							for _, ex := range c07Extras {
								c07Case(c, c07Replay{Kind: "c07", Depth: d, Names: names, Route: rt, Exts: []string{"x"}, Extra: ex})
							}
						}
					}
				})
			})
		}
	}
	// relative and default targets after the process changed its working directory (every case has its own
	// directory): valid and hostile trees, nothing may appear anywhere but in the target
	cwdFamily := props["C07"]
	props["C07"] = func(c *rep.Ctx) {
		cwdFamily(c)
		names := []string{"x", "abs", "..", "a/b", "../x"}
		for n := 1; n <= 2 && !c.Expired(); n++ {
			enum.DepthSeqs(n, func(d0 []int) {
				d := append([]int{}, d0...)
				enum.Tuples(n, len(names), func(t []int) {
					if !c.Take() || c.Expired() {
						return
					}
					nm := enum.Pick(names, t)
					if !distinctRoots(enum.Build(d, nm)) {
						return
					}
					c.StateN(1)
					c.Inc("working_directory_cases")
					for _, form := range []string{"rel", "cwd"} {
						for _, rt := range []string{"md", "root", "md-dry-mkdir"} {
							if rt == "root" && n == 2 && d[1] == 1 {
								continue
							}
							c07Case(c, c07Replay{Kind: "c07", Depth: d, Names: nm, Route: rt, Exts: []string{"x"}, TargetForm: form})
							c07Case(c, c07Replay{Kind: "c07", Depth: d, Names: nm, Route: rt, TargetForm: form, Extra: "massive"})
						}
					}
				})
			})
		}
	}
	// wide nodes: one hostile child at every position among k valid siblings (k up to 40), as child of the root and
	// as child of an inner node
	wide := props["C07"]
	props["C07"] = func(c *rep.Ctx) {
		wide(c)
		for _, k := range []int{5, 9, 10, 16, 17, 31, 32, 33, 40} {
			for pos := 0; pos < k; pos++ {
				if !c.Take() || c.Expired() {
					continue
				}
				for _, h := range []string{"a/b", "..", "../../y"} {
					d := []int{1, 2}
					names := []string{"r", "inner"}
					for i := 0; i < k; i++ {
						d = append(d, 3)
						if i == pos {
							names = append(names, h)
						} else {
							names = append(names, fmt.Sprintf("c%02d", i))
						}
					}
					c.StateN(1)
					c.Inc("wide_cases")
					for _, rt := range []string{"md", "root", "md-dry-output"} {
						c07Case(c, c07Replay{Kind: "c07", Depth: d, Names: names, Route: rt})
					}
				}
			}
		}
	}
	// entries planted in the target under the names the tree is about to use: symbolic links that dangle (pointing outside
	// the target, or inside it) or lead to a directory outside. Whatever Mkdir makes of them (refuse, fail, replace), it
	// creates nothing outside the target. Every forest of up to two nodes over a file-like and two plain names, every
	// subset of the root names planted, every kind of link; simple, massive, From-Root; with and without extensions
	plantBase := props["C07"]
	props["C07"] = func(c *rep.Ctx) {
		plantBase(c)
		names := []string{"x.go", "d", "e"}
		for n := 1; n <= 2 && !c.Expired(); n++ {
			enum.DepthSeqs(n, func(d0 []int) {
				d := append([]int{}, d0...)
				enum.Tuples(n, len(names), func(t []int) {
					nm := enum.Pick(names, t)
					f := enum.Build(d, nm)
					if !distinctRoots(f) || !c.Take() || c.Expired() {
						return
					}
					for _, kind := range []byte{'X', 'L', 'l'} {
						for mask := 1; mask < 1<<len(f); mask++ {
							pre := map[string]byte{}
							for i, r := range f {
								if mask&(1<<i) != 0 {
									pre[r.Name] = kind
								}
							}
							c.StateN(1)
							c.Nontrivial()
							c.Inc("planted_link_cases")
							for _, ex := range [][]string{{".go"}, nil} {
								for _, rt := range []string{"md", "root", "md+massive"} {
									if rt == "root" && len(f) != 1 {
										continue
									}
									base, extra, _ := strings.Cut(rt, "+")
									c07Case(c, c07Replay{Kind: "c07", Depth: d, Names: nm, Route: base, Exts: ex, Extra: extra, Pre: pre})
								}
							}
						}
					}
				})
			})
		}
	}
	// many roots, one of them planted as a link (to a directory outside, or dangling to the outside): every number of roots
	// up to the bound, the link at the first, the middle and the last root
	manyBase := props["C07"]
	props["C07"] = func(c *rep.Ctx) {
		manyBase(c)
		upTo, far := 140, 1030
		if c.Thorough() {
			upTo, far = 400, 2100
		}
		c.Bound("planted_link_roots_every_integer_up_to", fmt.Sprint(upTo))
		enum.ManyRootShapes(enum.Sizes(upTo, far), func(sh enum.SizeShape) {
			if !c.Take() || c.Expired() {
				return
			}
			R := sh.Size
			for pi, pos := range []int{0, R / 2, R - 1} {
				if pi > 0 && pos == 0 {
					continue
				}
				kind := []byte{'l', 'X', 'l'}[(R+pi)%3]
				pre := map[string]byte{fmt.Sprintf("root%04d", pos): kind}
				c.StateN(1)
				c.Nontrivial()
				c.Inc("planted_link_many_roots_cases")
				extra := ""
				if (R+pi)%4 == 3 {
					extra = "massive"
				}
				c07Case(c, c07Replay{Kind: "c07", Depth: sh.D, Names: sh.Names, Route: "md", Pre: pre, Extra: extra})
			}
		})
		// a target directory whose own name begins or ends with white space: the tree goes there and nowhere else
		for _, form := range []string{"blank-suffix", "newline-suffix", "blank-prefix", "blanks-only"} {
			for _, tr := range []struct {
				d []int
				n []string
			}{{[]int{1, 2}, []string{"a", "b.go"}}, {[]int{1, 1, 2}, []string{"a", "c", "d"}}, {[]int{1, 2}, []string{"a", ".."}}} {
				if !c.Take() {
					continue
				}
				c.StateN(1)
				c.Nontrivial()
				c.Inc("blank_target_cases")
				for _, rt := range []string{"md", "root", "md+massive", "md-dry-mkdir"} {
					base, extra, _ := strings.Cut(rt, "+")
					if base == "root" && len(tr.d) == 3 {
						continue // (two roots)
					}
					c07Case(c, c07Replay{Kind: "c07", Depth: tr.d, Names: tr.n, Route: base, Extra: extra, Exts: []string{".go"}, TargetForm: form})
				}
			}
		}
	}
	// the size sweep (enum/size.go): one hostile name at the place a size threshold would make special — the deepest node
	// of a chain of every depth, the row that returns after it, the child at an edge position of a parent of every width
	// and the grandchild below it — in an otherwise valid tree: rejected, nothing created, nothing outside touched
	sweepBase := props["C07"]
	props["C07"] = func(c *rep.Ctx) {
		sweepBase(c)
		upTo, far, deepTo, deepFar := 140, 1030, 130, 260 // (a jail per case)
		if c.Thorough() {
			upTo, far, deepTo, deepFar = 600, 2100, 300, 520
		}
		c.Bound("size_sweep_width_every_integer_up_to", fmt.Sprint(upTo))
		c.Bound("size_sweep_depth_every_integer_up_to", fmt.Sprint(deepTo))
		c.Bound("size_sweep_depth_power_of_two_neighbours_up_to", fmt.Sprint(deepFar))
		hostile := []string{"a/b", "..", "../../y", "."}
		perSize := map[string]int{}
		sweep := func(sh enum.SizeShape) {
			k := fmt.Sprint(sh.Tag[:4], sh.Size)
			if perSize[k]++; perSize[k] > 10 {
				return
			}
			if !c.Take() || c.Expired() {
				return
			}
			// candidates: the deepest row, the last row, the row named "g" / "again" / "back"
			cand := map[int]bool{len(sh.D) - 1: true}
			deepest := 0
			for i, lv := range sh.D {
				if lv >= sh.D[deepest] {
					deepest = i
				}
				if sh.Names[i] == "g" || sh.Names[i] == "again" || sh.Names[i] == "back" {
					cand[i] = true
				}
			}
			cand[deepest] = true
			n := 0
			for i := range sh.D {
				if !cand[i] || sh.D[i] == 1 {
					continue
				}
				names := append([]string{}, sh.Names...)
				names[i] = hostile[(sh.Size+n)%len(hostile)]
				n++
				c.StateN(1)
				c.Nontrivial()
				c.Inc("size_sweep_cases")
				roots := 0
				for _, x := range sh.D {
					if x == 1 {
						roots++
					}
				}
				rts := []string{"md", "md-dry-output", "root", "root-dry", "md-dry-mkdir"}
				if roots != 1 {
					rts = []string{"md", "md-dry-output", "md-dry-mkdir"}
				}
				c07Case(c, c07Replay{Kind: "c07", Depth: sh.D, Names: names, Route: rts[(sh.Size+n)%len(rts)]})
				if (sh.Size+n)%4 == 0 && roots == 1 {
					c07Case(c, c07Replay{Kind: "c07", Depth: sh.D, Names: names, Route: "md", Extra: "massive"})
					// two hostile names under different parents at once (the second, third ... failure of one call)
					two := append([]string{}, names...)
					for k := 1; k < len(two); k++ {
						if k != i && sh.D[k] == sh.D[1] && k > 2 {
							two[k] = hostile[(sh.Size+k)%len(hostile)]
							break
						}
					}
					c07Case(c, c07Replay{Kind: "c07", Depth: sh.D, Names: two, Route: []string{"md", "root", "md-dry-mkdir"}[sh.Size%3], Extra: "massive"})
				}
			}
		}
		enum.DeepShapes(enum.Sizes(deepTo, deepFar), sweep)
		enum.WideShapes(enum.Sizes(upTo, far), sweep)
	}
	replayers["c07"] = func(raw json.RawMessage) bool {
		var r c07Replay
		if json.Unmarshal(raw, &r) != nil {
			return false
		}
		c := rep.New("C07", "replay", "quick", 0, 1, 0, 0)
		c07Case(c, r)
		for k, v := range c.R.ViolEx {
			fmt.Println(k, v[0].Detail)
		}
		return len(c.R.ViolCount) > 0
	}
	_ = model.Key
}
