package main

import (
	"encoding/json"
	"fmt"
	"sort"
	"strings"

	"github.com/ddddddO/gtree"

	"verifharness/enum"
	"verifharness/model"
	"verifharness/rep"
	"verifharness/sut"
)

// ---- C02: rendered completely or rejected

func lineAlphabet(unit string) []string {
	u := unit
	return []string{
		"- a", "- b", u + "- a", u + "- b", u + u + "- a", u + u + u + "- a", // levels 1..4
		u[:len(u)/2] + " - a", // not a whole multiple (for a TAB unit: tab+space mix)
		u + "a",               // no bullet
		u + "-",               // empty text
		"\t " + "- a",         // tab and space mixed in one indentation
		"",                    // blank
		"   ",                 // whitespace-only
		"# h",                 // heading root
		"* a", "+ b",          // other bullets
		u + "* b",
		other(u) + "- a", // indented wholly with the other character
	}
}

func other(u string) string {
	if u[0] == '\t' {
		return "  "
	}
	return "\t"
}

type c02Replay struct {
	Kind string `json:"kind"`
	Doc  string `json:"doc"`
	Mode string `json:"mode"`
}

func walkNames(doc string, opts ...gtree.Option) (names []string, err error, pan string) {
	pan = sut.Guard(func() {
		err = gtree.WalkFromMarkdown(strings.NewReader(doc), func(wn *gtree.WalkerNode) error {
			names = append(names, wn.Name())
			return nil
		}, opts...)
	})
	return
}

func uniqSorted(xs []string) []string {
	m := map[string]bool{}
	for _, x := range xs {
		m[x] = true
	}
	var o []string
	for x := range m {
		o = append(o, x)
	}
	sort.Strings(o)
	return o
}

// c02Judge compares one (doc, mode) run with the specification verdict.
func c02Judge(c *rep.Ctx, doc string, sp model.Spec, mode string) {
	var out string
	var err error
	var pan string
	var names []string
	switch mode {
	case "text":
		out, err, pan = sut.Output(doc)
	case "text-noiter":
		out, err, pan = sut.Output(doc, gtree.WithNoUseIterOfSimpleOutput())
	case "json":
		out, err, pan = sut.Output(doc, gtree.WithEncodeJSON())
	case "walk":
		names, err, pan = walkNames(doc)
	}
	c.Eval()
	rp := c02Replay{"c02", doc, mode}
	if pan != "" {
		c.Violation("C02|panic|"+mode, fmt.Sprintf("doc=%q: %s", doc, pan), len(doc), rp)
		return
	}
	switch sp.Verdict {
	case model.Malformed:
		if err == nil {
			c.Violation("C02|accepted-malformed|"+sp.Class, fmt.Sprintf("mode=%s doc=%q: spec says malformed (%s at line %d %q) but the call returned nil; output=%q names=%q", mode, doc, sp.Class, sp.LineNo, sp.Line, out, names), len(doc), rp)
			return
		}
		switch sp.Class {
		case "no-bullet", "bad-multiple", "mixed-indent", "mixed-indent-lines":
			if !strings.Contains(err.Error(), sp.Line) {
				c.Violation("C02|error-does-not-identify-line|"+sp.Class, fmt.Sprintf("mode=%s doc=%q: error %q does not contain the offending line %q", mode, doc, err, sp.Line), len(doc), rp)
			}
		}
	case model.WellFormed:
		if err != nil {
			c.Violation("C02|rejected-wellformed", fmt.Sprintf("mode=%s doc=%q: spec says well-formed but err=%v", mode, doc, err), len(doc), rp)
			return
		}
		want := uniqSorted(sp.Items)
		switch mode {
		case "walk":
			if got := uniqSorted(names); strings.Join(got, "\x00") != strings.Join(want, "\x00") {
				c.Violation("C02|names-lost", fmt.Sprintf("mode=walk doc=%q: names visited %q, items written %q", doc, got, want), len(doc), rp)
			}
		case "text", "text-noiter":
			m := model.Merge(sp.Forest)
			if exp := model.Render(m, model.DefaultFmt); out != exp {
				c.Violation("C02|names-lost", fmt.Sprintf("mode=%s doc=%q: output %q, expected the complete tree %q", mode, doc, out, exp), len(doc), rp)
			}
		case "json":
			for _, it := range want {
				enc, _ := json.Marshal(it) // (as the encoder spells it: control characters and markup escaped)
				if !strings.Contains(out, `"value":`+string(enc)) {
					c.Violation("C02|names-lost", fmt.Sprintf("mode=json doc=%q: item %q missing from %q", doc, it, out), len(doc), rp)
					break
				}
			}
		}
	}
}

func init() {
	props["C02"] = func(c *rep.Ctx) {
		type fam struct {
			unit string
			maxL int
		}
		fams := []fam{{"  ", 6}, {"\t", 5}, {"    ", 5}}
		if c.Thorough() {
			fams = []fam{{"  ", 7}, {"\t", 6}, {"    ", 6}, {" ", 5}}
		}
		for _, f := range fams {
			alpha := lineAlphabet(f.unit)
			c.Bound(fmt.Sprintf("unit_%q_max_lines", f.unit), fmt.Sprint(f.maxL))
			c.Bound("line_alphabet_size", fmt.Sprint(len(alpha)))
			for L := 1; L <= f.maxL && !c.Expired(); L++ {
				enum.Tuples(L, len(alpha), func(t []int) {
					if !c.Take() || c.Expired() {
						return
					}
					doc := strings.Join(enum.Pick(alpha, t), "\n") + "\n"
					sp := model.ParseSpec(doc)
					c.StateN(1)
					c.Trans(L)
					switch sp.Verdict {
					case model.OutOfDomain:
						c.Inc("out_of_domain")
						return
					case model.Malformed:
						c.Inc("malformed_" + sp.Class)
						c.Nontrivial()
					default:
						c.Inc("wellformed")
					}
					c.Trace()
					if c.R.States%200000 == 7 {
						c.Sample(map[string]any{"doc": doc, "verdict": sp.Class})
					}
					c02Judge(c, doc, sp, "text")
					if L <= 5 {
						c02Judge(c, doc, sp, "walk")
						c02Judge(c, doc, sp, "json")
						c02Judge(c, doc, sp, "text-noiter")
					}
				})
			}
		}
	}
	// a second, smaller line alphabet (names that differ in case only, compact items whose text begins with a tab, bullets
	// inside names, a name ending in #, lines made of control bytes or of Unicode white space only), every sequence of
	// up to four lines
	second := props["C02"]
	props["C02"] = func(c *rep.Ctx) {
		second(c)
		u := "  "
		alpha := []string{"- a", "- A", u + "- a", u + "- A", u + u + "- b", "\x00", u + "\x01 ", "\u3000", " \u00a0", u + "-\ta", u + "* a-b", u + "+ a * b", "# C#", "- é", u + "- É"}
		c.Bound("second_alphabet_max_lines", "4")
		for L := 1; L <= 4 && !c.Expired(); L++ {
			enum.Tuples(L, len(alpha), func(t []int) {
				if !c.Take() || c.Expired() {
					return
				}
				doc := strings.Join(enum.Pick(alpha, t), "\n") + "\n"
				sp := model.ParseSpec(doc)
				if sp.Verdict == model.OutOfDomain {
					return
				}
				c.StateN(1)
				c.Inc("second_alphabet_documents")
				if sp.Verdict == model.Malformed {
					c.Nontrivial()
				}
				c02Judge(c, doc, sp, "text")
				c02Judge(c, doc, sp, "walk")
				if L <= 3 {
					c02Judge(c, doc, sp, "json")
					c02Judge(c, doc, sp, "text-noiter")
				}
			})
		}
	}
	// a third alphabet: lines made of the marker characters themselves. The blank after a bullet is optional, so "---" is
	// the item "--", "****" the item "***", "-- -" the item "- -"; "___" has no bullet, "###" no text. Every sequence of
	// up to four lines, all modes.
	third := props["C02"]
	props["C02"] = func(c *rep.Ctx) {
		third(c)
		u := "  "
		alpha := []string{"- a", u + "- b", "---", "***", "+++", "--", "**", "-- -", u + "---", u + "****", u + "--", "- ---", "___", "###", "## #", "----  ", u + u + "- c", u + "+++"}
		c.Bound("marker_alphabet_max_lines", "4")
		for L := 1; L <= 4 && !c.Expired(); L++ {
			enum.Tuples(L, len(alpha), func(t []int) {
				if !c.Take() || c.Expired() {
					return
				}
				doc := strings.Join(enum.Pick(alpha, t), "\n") + "\n"
				sp := model.ParseSpec(doc)
				if sp.Verdict == model.OutOfDomain {
					return
				}
				c.StateN(1)
				c.Inc("marker_alphabet_documents")
				c.Nontrivial()
				c02Judge(c, doc, sp, "text")
				c02Judge(c, doc, sp, "walk")
				if L <= 3 {
					c02Judge(c, doc, sp, "json")
					c02Judge(c, doc, sp, "text-noiter")
				}
			})
		}
		// the size sweep (enum/size.go): well-formed documents of every depth and width are rendered completely
		upTo, far, deepTo, deepFar := 300, 1030, 160, 260
		if c.Thorough() {
			upTo, far, deepTo, deepFar = 1100, 4100, 300, 1030
		}
		c.Bound("size_sweep_width_every_integer_up_to", fmt.Sprint(upTo))
		c.Bound("size_sweep_depth_every_integer_up_to", fmt.Sprint(deepTo))
		c.Bound("size_sweep_depth_power_of_two_neighbours_up_to", fmt.Sprint(deepFar))
		sweep := func(s enum.SizeShape) {
			if !c.Take() || c.Expired() {
				return
			}
			doc := enum.Spell(s.D, s.Names, enum.Spelling{Unit: "  ", Bullets: []byte("-")})
			sp := model.ParseSpec(doc)
			c.StateN(1)
			c.Inc("size_sweep_cases")
			c02Judge(c, doc, sp, "walk")
			c02Judge(c, doc, sp, []string{"text", "json", "text-noiter"}[s.Size%3])
		}
		enum.DeepShapes(enum.Sizes(deepTo, deepFar), sweep)
		enum.WideShapes(enum.Sizes(upTo, far), sweep)
		enum.TwinShapes(sweep) // sibling names that agree on cheap fingerprints (enum/twins.go)
	}
	// big documents: a well-formed filler of F bytes (many small roots with distinct names) followed by every tail of up to
	// two alphabet lines; the verdict, the offending line and the completeness of the rendering must not depend on how
	// much text came before (internal buffers are refilled and moved while earlier nodes are still held)
	small := props["C02"]
	props["C02"] = func(c *rep.Ctx) {
		small(c)
		alpha := lineAlphabet("  ")
		for _, F := range []int{2100, 4090, 4100, 6500, 13000, 70000} {
			var sb strings.Builder
			for i := 0; sb.Len() < F; i++ {
				fmt.Fprintf(&sb, "- root%05d\n  - kid%05d\n    - leaf%05d\n", i, i, i)
			}
			filler := sb.String()
			for L := 0; L <= 2 && !c.Expired(); L++ {
				enum.Tuples(L, len(alpha), func(t []int) {
					if !c.Take() || c.Expired() {
						return
					}
					tail := strings.Join(enum.Pick(alpha, t), "\n")
					for _, final := range []string{"\n", ""} {
						if L == 0 && final == "" {
							continue
						}
						doc := filler + tail + final
						sp := model.ParseSpec(doc)
						if sp.Verdict == model.OutOfDomain {
							continue
						}
						c.StateN(1)
						c.Inc("big_documents")
						for _, mode := range []string{"text", "walk", "json", "text-noiter"} {
							c02Judge(c, doc, sp, mode)
						}
					}
				})
			}
			// and the filler alone, without a final newline
			doc := strings.TrimSuffix(filler, "\n")
			sp := model.ParseSpec(doc)
			for _, mode := range []string{"text", "walk", "json", "text-noiter"} {
				c02Judge(c, doc, sp, mode)
			}
		}
	}
	replayers["c02"] = func(raw json.RawMessage) bool {
		var r c02Replay
		if json.Unmarshal(raw, &r) != nil {
			return false
		}
		sp := model.ParseSpec(r.Doc)
		c := rep.New("C02", "replay", "quick", 0, 1, 0, 0)
		c02Judge(c, r.Doc, sp, r.Mode)
		fmt.Printf("doc:\n%s\nspec verdict: %v %s line=%q\n", r.Doc, sp.Verdict, sp.Class, sp.Line)
		for k, v := range c.R.ViolEx {
			fmt.Println(k, v[0].Detail)
		}
		return len(c.R.ViolCount) > 0
	}
}
