package main

import (
	"context"
	"strings"
	"time"

	"github.com/ddddddO/gtree"

	"verifharness/sut"
)

// extraOpts spells a comma-separated list of options that do not concern the operation under test (the statements hold
// "whatever else is passed"): output encodings, branch strings, the benchmark switch, nil, options of other
// operations. target is used by "target".
func extraOpts(spec, target string) []gtree.Option {
	var opts []gtree.Option
	if spec == "" {
		return nil
	}
	for _, o := range strings.Split(spec, ",") {
		switch o {
		case "json":
			opts = append(opts, gtree.WithEncodeJSON())
		case "yaml":
			opts = append(opts, gtree.WithEncodeYAML())
		case "toml":
			opts = append(opts, gtree.WithEncodeTOML())
		case "fmt":
			opts = append(opts, gtree.WithBranchFormatIntermedialNode("+--", ":   "), gtree.WithBranchFormatLastNode("`--", "    "))
		case "noiter":
			opts = append(opts, gtree.WithNoUseIterOfSimpleOutput())
		case "nil":
			opts = append(opts, nil)
		case "dry":
			opts = append(opts, gtree.WithDryRun())
		case "strict":
			opts = append(opts, gtree.WithStrictVerify())
		case "exts":
			opts = append(opts, gtree.WithFileExtensions([]string{"a", ".go"}))
		case "target":
			opts = append(opts, gtree.WithTargetDir(target))
		case "massive":
			opts = append(opts, gtree.WithMassive(context.Background()))
		case "massive-nil":
			opts = append(opts, gtree.WithMassive(nil))
		default:
			panic("extraOpts: unknown option " + o)
		}
	}
	return opts
}

// guardMaybeMassive runs f under sut.Guard; a call with the massive option runs on real goroutines here, so it gets
// 60 s (it takes microseconds): a tree in which the call never returns ends with a report, not with a hanging check.
func guardMaybeMassive(massive bool, f func()) (pan string) {
	if !massive {
		return sut.Guard(f)
	}
	if massiveHung {
		return "massive call skipped: an earlier massive call in this process did not return"
	}
	done := make(chan string, 1)
	go func() { done <- sut.Guard(f) }()
	select {
	case pan = <-done:
	case <-time.After(60 * time.Second):
		massiveHung = true
		pan = "massive call did not return within 60 s"
	}
	return pan
}
