package main

import (
	"encoding/json"
	"fmt"
	"strings"

	"verifharness/enum"
	"verifharness/model"
	"verifharness/rep"
	"verifharness/sut"
)

// Branch tuples explored by C01/C03/C05.
var fmtTuples = []model.Fmt4{
	model.DefaultFmt,
	{LastDirect: "`--", LastIndirect: "    ", MidDirect: "+--", MidIndirect: ":   "},
	{},
	{LastDirect: "╚══", LastIndirect: "   ", MidDirect: "╠══", MidIndirect: "║  "},
	{LastDirect: "xy", LastIndirect: "xy", MidDirect: "xy", MidIndirect: "xy"},
	{LastDirect: "L", LastIndirect: "l", MidDirect: "M", MidIndirect: "m"},
	// connectors and continuations of unequal byte widths (a prefix cut by the wrong width shows up here)
	{LastDirect: "\\____", LastIndirect: "  ", MidDirect: "|-", MidIndirect: "|    "},
	{LastDirect: "", LastIndirect: "xx", MidDirect: "├──", MidIndirect: ""},
}

// fmtOrderTuples: which of the two branch-format options are given, and in which order (each option concerns its own
// pair only; a pair that is not given keeps the default; an option given twice takes the later value). Continuation
// strings of unequal widths, so that a pair leaking into the other one shows.
var fmtOrderTuples = []model.Fmt4{
	{LastDirect: "`--", LastIndirect: "..", MidDirect: "+--", MidIndirect: ":    ", Order: "lm"},
	{MidDirect: "+--", MidIndirect: ":  ", Order: "m"},
	{LastDirect: "`--", LastIndirect: ".....", Order: "l"},
	{LastDirect: "`--", LastIndirect: "..", MidDirect: "+--", MidIndirect: ":    ", Order: "xyml"},
	{LastDirect: "`--", LastIndirect: "", MidDirect: "", MidIndirect: ":", Order: "lym"},
	{LastDirect: "", LastIndirect: "", MidDirect: "", MidIndirect: "", Order: "l"},
	{LastDirect: "", LastIndirect: "", MidDirect: "", MidIndirect: "", Order: "m"},
}

var c01Spellings = []enum.Spelling{
	{Unit: "  ", Bullets: []byte("-")},
	{Unit: "\t", Bullets: []byte("*")},
	{Unit: "    ", Bullets: []byte("-*+")},
	{Unit: " ", Bullets: []byte("+")},
	{Unit: "  ", Bullets: []byte("-"), Heading: true},
}

var hostileNames = []string{"a", "- x", "*", "é日本", " a", "a ", "a-b", "+x*", "#h", "a  b", "└── x", "│   y", "a\tb", "100%d", "<&>\"", "p ├── └── q", "C#", "e\u0301x", "a\xffb", "--", "* *"} // incl. names that look like branches, format verbs, markup

type c01Replay struct {
	Kind  string     `json:"kind"`
	Doc   string     `json:"doc"`
	Fmt   model.Fmt4 `json:"fmt"`
	Want  string     `json:"want"`
	Notes string     `json:"notes,omitempty"`
}

func c01One(c *rep.Ctx, d []int, names []string, sp enum.Spelling, fm model.Fmt4) {
	doc := enum.Spell(d, names, sp)
	want := model.Render(model.Merge(enum.Build(d, names)), fm)
	got, err, pan := sut.Output(doc, sut.FmtOpts(fm)...)
	c.Eval()
	c.Trans(len(d))
	c.Trace()
	switch {
	case pan != "":
		c.Violation("C01|panic", fmt.Sprintf("doc=%q panic=%s", doc, pan), len(doc), c01Replay{"c01", doc, fm, want, ""})
	case err != nil:
		c.Violation("C01|error-on-wellformed", fmt.Sprintf("doc=%q err=%v", doc, err), len(doc), c01Replay{"c01", doc, fm, want, ""})
	case got != want:
		c.Violation("C01|wrong-drawing", fmt.Sprintf("doc=%q fmt=%+v\n got=%q\nwant=%q", doc, fm, got, want), len(doc), c01Replay{"c01", doc, fm, want, ""})
	}
}

func init() {
	props["C01"] = func(c *rep.Ctx) {
		maxN, maxH := 7, 3
		if c.Thorough() {
			maxN, maxH = 9, 4
		}
		c.Bound("nodes_ab", fmt.Sprint(maxN))
		c.Bound("nodes_hostile", fmt.Sprint(maxH))
		ab := []string{"a", "b"}
		// Part 1: all forests over {a,b}
		for n := 1; n <= maxN && !c.Expired(); n++ {
			enum.DepthSeqs(n, func(d []int) {
				enum.Tuples(n, 2, func(t []int) {
					if !c.Take() || c.Expired() {
						return
					}
					names := enum.Pick(ab, t)
					f := enum.Build(d, names)
					m := model.Merge(f)
					c.StateN(1)
					if m.Size() != f.Size() {
						c.Inc("forests_with_merged_siblings")
						c.Nontrivial()
					}
					if c.R.States%5000 == 1 {
						c.Sample(enum.Spell(d, names, c01Spellings[0]))
					}
					for si, sp := range c01Spellings {
						for fi, fm := range fmtTuples {
							// full product for small n; beyond 7 nodes every spelling meets every tuple on a diagonal + default
							if n > 7 && !(fi == 0 || (si+fi)%len(c01Spellings) == 0) {
								continue
							}
							c01One(c, d, names, sp, fm)
						}
					}
					if n <= 6 {
						for _, fm := range fmtOrderTuples {
							c01One(c, d, names, c01Spellings[0], fm)
						}
					}
				})
			})
		}
		// Part 1a: names that differ only in case are different names (no merging), with other bullets and mixed root styles
		for n := 2; n <= 5 && !c.Expired(); n++ {
			enum.DepthSeqs(n, func(d []int) {
				enum.Tuples(n, 3, func(t []int) {
					if !c.Take() || c.Expired() {
						return
					}
					names := enum.Pick([]string{"a", "A", "é"}, t)
					c.StateN(1)
					c01One(c, d, names, c01Spellings[0], fmtTuples[0])
					c01One(c, d, names, enum.Spelling{Unit: "\t", Bullets: []byte("*+"), Heading: true, ListRootsFirst: 1}, fmtTuples[1])
				})
			})
		}
		// Part 1b: wide fan-out (collection-size thresholds): one parent with k distinct children, then child i is
		// written again with a grandchild (must merge into the i-th child), for every k <= K and every i
		maxK := 36
		if c.Thorough() {
			maxK = 70
		}
		c.Bound("wide_fanout_children", fmt.Sprint(maxK))
		for k := 1; k <= maxK && !c.Expired(); k++ {
			for i := 0; i < k; i++ {
				if !c.Take() {
					continue
				}
				d := []int{1}
				names := []string{"r"}
				for j := 0; j < k; j++ {
					d = append(d, 2)
					names = append(names, fmt.Sprintf("c%02d", j))
				}
				d = append(d, 2, 3, 2)
				names = append(names, fmt.Sprintf("c%02d", i), "g", "tail")
				c.StateN(1)
				c.Nontrivial()
				c.Inc("wide_fanout_cases")
				for _, fi := range []int{0, 6} {
					c01One(c, d, names, c01Spellings[0], fmtTuples[fi])
				}
				c01One(c, d, names, c01Spellings[1], fmtTuples[1])
			}
		}
		// Part 1c: size families (thresholds in depth, number of roots, name length): chains of depth 1..D with and
		// without a sibling at every level, R flat roots for every R, long names
		maxD, maxR := 40, 70
		if c.Thorough() {
			maxD, maxR = 120, 300
		}
		c.Bound("chain_depth", fmt.Sprint(maxD))
		c.Bound("flat_roots", fmt.Sprint(maxR))
		for depth := 1; depth <= maxD && !c.Expired(); depth++ {
			if !c.Take() {
				continue
			}
			var d1, d2 []int
			var n1, n2 []string
			for l := 1; l <= depth; l++ {
				d1 = append(d1, l)
				n1 = append(n1, fmt.Sprintf("n%d", l))
				d2 = append(d2, l)
				n2 = append(n2, fmt.Sprintf("n%d", l))
			}
			for l := depth; l >= 2; l-- { // a trailing sibling at every level on the way back
				d2 = append(d2, l)
				n2 = append(n2, fmt.Sprintf("s%d", l))
			}
			c.StateN(2)
			c.Inc("size_family_cases")
			for _, fi := range []int{0, 1, 6} {
				c01One(c, d1, n1, c01Spellings[0], fmtTuples[fi])
				c01One(c, d2, n2, c01Spellings[1], fmtTuples[fi])
			}
			// wide indentation units: the same depth reaches 4 and 8 times as many columns
			c01One(c, d2, n2, c01Spellings[2], fmtTuples[0])
			c01One(c, d1, n1, enum.Spelling{Unit: "        ", Bullets: []byte("-")}, fmtTuples[0])
			c01One(c, d2, n2, enum.Spelling{Unit: " ", Bullets: []byte("*")}, fmtTuples[1])
		}
		for r := 1; r <= maxR && !c.Expired(); r++ {
			if !c.Take() {
				continue
			}
			var d []int
			var nm []string
			for i := 0; i < r; i++ {
				d = append(d, 1, 2)
				nm = append(nm, fmt.Sprintf("root%03d", i), "kid")
			}
			c.StateN(1)
			c.Inc("size_family_cases")
			c01One(c, d, nm, c01Spellings[0], fmtTuples[0])
			c01One(c, d, nm, c01Spellings[2], fmtTuples[6])
		}
		for _, ln := range []int{255, 256, 1000, 4095, 4096, 4097, 8192, 60000} {
			if !c.Take() {
				continue
			}
			long := strings.Repeat("x", ln)
			c.StateN(1)
			c.Inc("size_family_cases")
			c01One(c, []int{1, 2, 3, 2}, []string{"r", long, "k", long + "2"}, c01Spellings[0], fmtTuples[0])
			c01One(c, []int{1, 2}, []string{long, "k"}, c01Spellings[1], fmtTuples[1])
		}
		// long names made of bullet and heading characters (wherever a long line is cut into pieces, the piece starts
		// with a character that could be taken for the start of a list item), simple and massive (single root)
		for _, ln := range []int{4095, 4096, 4097, 8192, 12289} {
			for _, pat := range []string{"-", "* ", "#", "+-"} {
				if !c.Take() || c.Expired() {
					continue
				}
				long := strings.TrimRight(strings.Repeat(pat, ln/len(pat)+1)[:ln], " ")
				d, names := []int{1, 2, 3, 2}, []string{"r", long, "k", "z" + long}
				c.StateN(1)
				c.Inc("size_family_cases")
				c01One(c, d, names, c01Spellings[0], fmtTuples[0])
				doc := enum.Spell(d, names, c01Spellings[0])
				want := model.Render(model.Merge(enum.Build(d, names)), model.DefaultFmt)
				var got string
				var err error
				pan := guardMaybeMassive(true, func() { got, err, _ = sut.Output(doc, extraOpts("massive", "")...) })
				c.Eval()
				if pan != "" || err != nil || got != want {
					c.Violation("C01|wrong-drawing|massive-long-line", fmt.Sprintf("single root with a %d-byte name made of %q, massive option: err=%v panic=%q, %d bytes of output, want %d", ln, pat, err, pan, len(got), len(want)), ln, nil)
				}
			}
		}
		// very wide single roots with the massive option (stages that split a root's children among helpers): every child
		// keeps its connector, also when the count is not a round number
		for _, k := range []int{9, 10, 11, 64, 99, 100, 101, 109, 137, 250, 1001} {
			if !c.Take() || c.Expired() {
				continue
			}
			d, names := []int{1}, []string{"r"}
			for j := 0; j < k; j++ {
				d = append(d, 2)
				names = append(names, fmt.Sprintf("c%04d", j))
				if j%50 == 7 {
					d = append(d, 3)
					names = append(names, "g")
				}
			}
			doc := enum.Spell(d, names, c01Spellings[0])
			want := model.Render(model.Merge(enum.Build(d, names)), model.DefaultFmt)
			c.StateN(1)
			c.Inc("size_family_cases")
			for _, mode := range []string{"massive", "massive-nil"} {
				var got string
				var err error
				pan := guardMaybeMassive(true, func() { got, err, _ = sut.Output(doc, extraOpts(mode, "")...) })
				c.Eval()
				if pan != "" || err != nil || got != want {
					c.Violation("C01|wrong-drawing|massive-wide-root", fmt.Sprintf("single root with %d children, %s: err=%v panic=%q; first differing line: %s", k, mode, err, pan, firstDiffLine(got, want)), k, nil)
				}
			}
			c01One(c, d, names, c01Spellings[1], fmtTuples[1])
		}
		// Part 1e: the size sweep (enum/size.go): every depth and every width up to the bound, each with the follow-up rows
		// that make a wrong boundary visible
		// (the library's cost grows with the cube of the depth, so depths get a smaller bound than widths)
		upTo, far, deepTo, deepFar := 300, 1030, 200, 520
		if c.Thorough() {
			upTo, far, deepTo, deepFar = 1100, 4100, 400, 1030
		}
		c.Bound("size_sweep_width_every_integer_up_to", fmt.Sprint(upTo))
		c.Bound("size_sweep_width_power_of_two_neighbours_up_to", fmt.Sprint(far))
		c.Bound("size_sweep_depth_every_integer_up_to", fmt.Sprint(deepTo))
		c.Bound("size_sweep_depth_power_of_two_neighbours_up_to", fmt.Sprint(deepFar))
		sweep := func(s enum.SizeShape) {
			if !c.Take() || c.Expired() {
				return
			}
			c.StateN(1)
			c.Nontrivial()
			c.Inc("size_sweep_cases")
			c01One(c, s.D, s.Names, c01Spellings[1], fmtTuples[0])
			if s.Size%3 == 0 {
				c01One(c, s.D, s.Names, c01Spellings[0], fmtTuples[6])
			}
		}
		enum.DeepShapes(enum.Sizes(deepTo, deepFar), sweep)
		enum.WideShapes(enum.Sizes(upTo, far), sweep)
		enum.TwinShapes(sweep) // sibling names that agree on cheap fingerprints (enum/twins.go)
		// Part 1d: documents whose total size crosses typical buffer sizes, with a root line starting exactly at, just
		// before and just after the boundary (simple mode; the massive counterpart is C10's bigdoc part)
		for _, B := range []int{512, 4096, 65536, 1 << 20} {
			for _, shift := range []int{-1, 0, 1} {
				if !c.Take() || c.Expired() {
					continue
				}
				for _, v := range []struct {
					unit string
					crlf bool
				}{{"\t", false}, {"  ", true}} {
					doc := alignedDoc(B, shift, v.unit, v.crlf)
					sp := model.ParseSpec(doc)
					if sp.Verdict != model.WellFormed {
						continue
					}
					want := model.Render(model.Merge(sp.Forest), model.DefaultFmt)
					got, err, pan := sut.Output(doc)
					c.Eval()
					c.StateN(1)
					c.Inc("boundary_aligned_documents")
					if pan != "" || err != nil || got != want {
						c.Violation("C01|wrong-drawing|big-document", fmt.Sprintf("document of %d bytes with a root line at offset %d (unit %q crlf=%v): err=%v panic=%q, output differs from the model (%d vs %d bytes)", len(doc), B+shift, v.unit, v.crlf, err, pan, len(got), len(want)), B, nil)
					}
				}
			}
		}
		// Part 2: hostile one-line names (bullet spellings only: a heading trims blanks)
		for n := 1; n <= maxH && !c.Expired(); n++ {
			enum.DepthSeqs(n, func(d []int) {
				enum.Tuples(n, len(hostileNames), func(t []int) {
					if !c.Take() || c.Expired() {
						return
					}
					names := enum.Pick(hostileNames, t)
					c.StateN(1)
					c.Nontrivial()
					for si, sp := range c01Spellings[:4] {
						for fi, fm := range fmtTuples {
							if n > 3 && (si+fi)%2 != 0 {
								continue
							}
							c01One(c, d, names, sp, fm)
						}
					}
					if n <= 6 {
						for _, fm := range fmtOrderTuples {
							c01One(c, d, names, c01Spellings[0], fm)
						}
					}
				})
			})
		}
	}
}

func firstDiffLine(got, want string) string {
	g, w := strings.Split(got, "\n"), strings.Split(want, "\n")
	for i := range w {
		if i >= len(g) {
			return fmt.Sprintf("line %d missing, want %q", i+1, w[i])
		}
		if g[i] != w[i] {
			return fmt.Sprintf("line %d: got %q, want %q", i+1, g[i], w[i])
		}
	}
	if len(g) > len(w) {
		return fmt.Sprintf("%d extra lines", len(g)-len(w))
	}
	return "(none)"
}

func init() {
	replayers["c01"] = func(raw json.RawMessage) bool {
		var r c01Replay
		if json.Unmarshal(raw, &r) != nil {
			return false
		}
		got, err, pan := sut.Output(r.Doc, sut.FmtOpts(r.Fmt)...)
		fmt.Printf("doc:\n%s\nfmt: %+v\ngot (err=%v panic=%v):\n%s\nwant:\n%s\n", r.Doc, r.Fmt, err, pan != "", got, r.Want)
		return pan != "" || err != nil || got != r.Want
	}
}
