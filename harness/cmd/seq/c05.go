package main

import (
	"bufio"
	"context"
	"encoding/json"
	"errors"
	"fmt"
	"io"
	"runtime"
	"strings"
	"time"

	"github.com/ddddddO/gtree"

	"verifharness/enum"
	"verifharness/model"
	"verifharness/rep"
	"verifharness/sut"
)

// ---- C05: walk visits the rendered tree

var errStop = errors.New("verif: callback sentinel")

type c05Replay struct {
	Kind    string     `json:"kind"`
	Doc     string     `json:"doc"`
	Fmt     model.Fmt4 `json:"fmt"`
	Route   string     `json:"route"`
	StopAt  int        `json:"stop_at"`
	ErrKind string     `json:"err_kind,omitempty"`
	Extra   string     `json:"extra_options,omitempty"`
}

// options that do not concern a walk
var c05Extras = []string{"json", "yaml", "toml", "noiter", "exts", "strict", "target", "nil", "nil,toml,exts,json", "strict,yaml,noiter", "dry", "dry,exts"}

// the errors a callback may return: the walk must hand back the very value, whatever it is or wraps
var c05Errs = map[string]error{
	"":            errStop,
	"eof":         io.EOF,
	"wrapped-eof": fmt.Errorf("callback: %w", io.EOF),
	"unexpected":  io.ErrUnexpectedEOF,
	"canceled":    context.Canceled,
	"deadline":    fmt.Errorf("callback: %w", context.DeadlineExceeded),
	"joined":      errors.Join(errors.New("x"), io.EOF),
	"exist":       gtree.ErrExistPath,
	"nilroot":     gtree.ErrNilNode,
	"short":       bufio.ErrTooLong,
}
var c05ErrKinds = []string{"eof", "wrapped-eof", "unexpected", "canceled", "deadline", "joined", "exist", "nilroot", "short"}

// c05Run performs one walk; stopAt==0 means never stop. Returns the visited rows, the returned error,
// the number of callback entries after the stop, and a panic text.
// iterLeft: goroutines that an iterator walk left behind (set by c05Run, read and reset by c05Judge)
var iterLeft int

func c05Run(route, doc string, root *model.Node, fm model.Fmt4, stopAt int, kind ...string) (rows []sut.WalkRow, err error, after int, pan string) {
	opts := sut.FmtOpts(fm)
	errStop := errStop
	if len(kind) > 0 {
		errStop = c05Errs[kind[0]]
	}
	if len(kind) > 1 {
		opts = append(opts, extraOpts(kind[1], "/nonexistent/never/used")...)
	}
	stopped := false
	cb := func(wn *gtree.WalkerNode) error {
		if stopped {
			after++
		}
		rows = append(rows, sut.FromWalker(wn))
		if stopAt > 0 && len(rows) == stopAt {
			stopped = true
			return errStop
		}
		return nil
	}
	pan = sut.Guard(func() {
		switch route {
		case "md":
			err = gtree.WalkFromMarkdown(strings.NewReader(doc), cb, opts...)
		case "md-alias":
			err = gtree.Walk(strings.NewReader(doc), cb, opts...)
		case "root":
			err = gtree.WalkFromRoot(sut.BuildRoot(root), cb, opts...)
		case "root-alias":
			err = gtree.WalkProgrammably(sut.BuildRoot(root), cb, opts...)
		case "iter", "iter-alias":
			it := gtree.WalkIterFromRoot
			if route == "iter-alias" {
				it = gtree.WalkIterProgrammably
			}
			base := runtime.NumGoroutine()
			defer func() {
				// leaving the loop ends the iteration: whatever the iterator runs on (a pulled sequence, a helper
				// goroutine) is gone shortly afterwards
				for i := 0; i < 200 && runtime.NumGoroutine() > base; i++ {
					time.Sleep(time.Millisecond)
				}
				if n := runtime.NumGoroutine(); n > base && pan == "" {
					iterLeft = n - base
				}
			}()
			for wn, e := range it(sut.BuildRoot(root), opts...) {
				if stopped {
					after++
				}
				if e != nil {
					err = e
					break
				}
				rows = append(rows, sut.FromWalker(wn))
				if stopAt > 0 && len(rows) == stopAt {
					stopped = true
					break
				}
			}
		}
	})
	return
}

func c05Judge(c *rep.Ctx, route, doc string, f model.Forest, fm model.Fmt4, stopAt int, kind ...string) {
	ek := ""
	if len(kind) > 0 {
		ek = kind[0]
	}
	errStop := c05Errs[ek]
	extra := ""
	if len(kind) > 1 {
		extra = kind[1]
	}
	m := model.Merge(f)
	var want []model.Row
	for _, r := range m {
		want = append(want, model.Rows(r, fm)...)
	}
	var root *model.Node
	if !strings.HasPrefix(route, "md") {
		root = f[0]
	}
	rows, err, after, pan := c05Run(route, doc, root, fm, stopAt, ek, extra)
	c.Eval()
	c.Trans(len(rows))
	rp := c05Replay{"c05", doc, fm, route, stopAt, ek, extra}
	tag := route
	if ek != "" {
		tag += "|" + ek
	}
	if extra != "" {
		tag += "|with-options:" + extra
	}
	if pan != "" {
		c.Violation("C05|panic|"+tag, fmt.Sprintf("doc=%q stopAt=%d: %s", doc, stopAt, pan), len(doc), rp)
		return
	}
	n := len(want)
	expN := n
	if stopAt > 0 && stopAt <= n {
		expN = stopAt
	}
	if iterLeft > 0 {
		c.Violation("C05|iterator-not-ended|"+tag, fmt.Sprintf("doc=%q stopAt=%d: %d goroutine(s) of the iteration are still there 200 ms after the loop was left", doc, stopAt, iterLeft), len(doc), rp)
		iterLeft = 0
	}
	if after > 0 {
		c.Violation("C05|visit-after-stop|"+tag, fmt.Sprintf("doc=%q stopAt=%d: %d further visits after the stop", doc, stopAt, after), len(doc), rp)
	}
	if len(rows) != expN {
		c.Violation("C05|wrong-visit-count|"+tag, fmt.Sprintf("doc=%q fmt=%+v stopAt=%d: visited %d nodes, expected %d", doc, fm, stopAt, len(rows), expN), len(doc), rp)
		return
	}
	for i, g := range rows {
		w := want[i]
		if g.Row != w.Line || g.Name != w.Name || g.Branch != w.Branch || int(g.Level) != w.Level || g.Path != w.Path || g.HasChild != w.HasChild {
			c.Violation("C05|wrong-node-facts|"+tag, fmt.Sprintf("doc=%q fmt=%+v visit %d: got %+v want %+v", doc, fm, i, g, w), len(doc), rp)
			return
		}
		if (w.Level == 1 && g.Row != g.Name) || (w.Level > 1 && g.Row != g.Branch+" "+g.Name) {
			c.Violation("C05|row-not-branch-space-name|"+tag, fmt.Sprintf("doc=%q visit %d: %+v", doc, i, g), len(doc), rp)
			return
		}
	}
	switch {
	case stopAt > 0 && stopAt <= n && !strings.HasPrefix(route, "iter"):
		if err != errStop {
			c.Violation("C05|callback-error-not-returned-unchanged|"+tag, fmt.Sprintf("doc=%q stopAt=%d: returned %v (want the sentinel itself)", doc, stopAt, err), len(doc), rp)
		}
	default:
		if err != nil {
			c.Violation("C05|unexpected-error|"+tag, fmt.Sprintf("doc=%q stopAt=%d: %v", doc, stopAt, err), len(doc), rp)
		}
	}
}

// c05WalkAddWalk: build the tree with the real API, walk it, Add "zz" under the parent-th node, walk again.
func c05WalkAddWalk(c *rep.Ctx, d []int, names []string, parent int, route string) {
	f := enum.Build(d, names)
	var real []*gtree.Node
	var mnodes []*model.Node
	var rec func(m *model.Node, g *gtree.Node)
	rec = func(m *model.Node, g *gtree.Node) {
		real = append(real, g)
		mnodes = append(mnodes, m)
		for _, k := range m.Kids {
			dup := false
			for _, prev := range m.Kids {
				if prev == k {
					break
				}
				if prev.Name == k.Name {
					dup = true
				}
			}
			if dup {
				continue // the model tree for this sub-check is built without duplicate sibling names
			}
			rec(k, g.Add(k.Name))
		}
	}
	mroot := model.MergeNode(f[0])
	root := gtree.NewRoot(mroot.Name)
	rec(mroot, root)
	if parent >= len(real) {
		return
	}
	walk := func() (rows []sut.WalkRow, err error) {
		if route == "iter" {
			for wn, e := range gtree.WalkIterFromRoot(root) {
				if e != nil {
					return rows, e
				}
				rows = append(rows, sut.FromWalker(wn))
			}
			return rows, nil
		}
		err = gtree.WalkFromRoot(root, func(wn *gtree.WalkerNode) error { rows = append(rows, sut.FromWalker(wn)); return nil })
		return
	}
	var r1, r2 []sut.WalkRow
	var e1, e2 error
	pan := sut.Guard(func() {
		r1, e1 = walk()
		real[parent].Add("zz")
		mnodes[parent].Kids = append(mnodes[parent].Kids, &model.Node{Name: "zz"})
		r2, e2 = walk()
	})
	c.Eval()
	c.Trans(len(r1) + len(r2))
	desc := fmt.Sprintf("tree %s, walk, Add(\"zz\") under node #%d, walk again (%s)", model.Key(model.Forest{f[0]}), parent, route)
	if pan != "" || e1 != nil || e2 != nil {
		c.Violation("C05|walk-add-walk|error", fmt.Sprintf("%s: %v %v %s", desc, e1, e2, pan), len(d), nil)
		return
	}
	want := model.Rows(mroot, model.DefaultFmt)
	if len(r2) != len(want) {
		c.Violation("C05|walk-add-walk|wrong-rows", fmt.Sprintf("%s: %d rows, want %d", desc, len(r2), len(want)), len(d), nil)
		return
	}
	for i, g := range r2 {
		w := want[i]
		if g.Row != w.Line || g.Branch != w.Branch || g.Path != w.Path || g.HasChild != w.HasChild {
			c.Violation("C05|walk-add-walk|wrong-rows", fmt.Sprintf("%s: row %d is %+v, want %+v", desc, i, g, w), len(d), nil)
			return
		}
	}
}

func init() {
	props["C05"] = func(c *rep.Ctx) {
		maxN := 7
		if c.Thorough() {
			maxN = 9
		}
		c.Bound("nodes", fmt.Sprint(maxN))
		fms := []model.Fmt4{fmtTuples[0], fmtTuples[1], fmtTuples[5]}
		for n := 1; n <= maxN && !c.Expired(); n++ {
			enum.DepthSeqs(n, func(d []int) {
				enum.Tuples(n, 2, func(t []int) {
					if !c.Take() || c.Expired() {
						return
					}
					names := enum.Pick([]string{"a", "b"}, t)
					f := enum.Build(d, names)
					doc := enum.Spell(d, names, enum.Canonical)
					single := len(f) == 1
					c.StateN(1)
					c.Trace()
					if model.Merge(f).Size() != f.Size() {
						c.Nontrivial()
					}
					if c.R.States%3000 == 1 {
						c.Sample(map[string]any{"doc": doc, "stop_positions": fmt.Sprintf("0..%d", n+1)})
					}
					total := model.Merge(f).Size()
					if n <= 5 {
						// which branch-format options are given and in which order; empty connectors (Row is still
						// Branch + space + Name)
						for _, fm := range append(append([]model.Fmt4{}, fmtOrderTuples...), fmtTuples[2], fmtTuples[7]) {
							c05Judge(c, "md", doc, f, fm, 0)
							c05Judge(c, "md-alias", doc, f, fm, total)
							if single {
								c05Judge(c, "root", doc, f, fm, 0)
								c05Judge(c, "iter", doc, f, fm, total)
								c05Judge(c, "root-alias", doc, f, fm, total)
								c05Judge(c, "iter-alias", doc, f, fm, 1)
							}
						}
					}
					if n <= 4 {
						// options that do not concern a walk change nothing
						for _, ex := range c05Extras {
							for _, stop := range []int{0, total} {
								c05Judge(c, "md", doc, f, fmtTuples[1], stop, "", ex)
								if single {
									c05Judge(c, "root", doc, f, fmtTuples[1], stop, "", ex)
									c05Judge(c, "iter", doc, f, model.DefaultFmt, stop, "", ex)
								}
							}
						}
					}
					if n <= 5 {
						// the callback's error is handed back as the very value, whatever it is or wraps
						for _, ek := range c05ErrKinds {
							for stop := 1; stop <= total; stop++ {
								c05Judge(c, "md", doc, f, model.DefaultFmt, stop, ek)
								c05Judge(c, "md-alias", doc, f, model.DefaultFmt, stop, ek)
								if single {
									c05Judge(c, "root", doc, f, model.DefaultFmt, stop, ek)
									c05Judge(c, "root-alias", doc, f, model.DefaultFmt, stop, ek)
								}
							}
						}
					}
					for fi, fm := range fms {
						for stop := 0; stop <= total+1; stop++ {
							if fi > 0 && stop > 0 && n > 5 && stop%2 == 0 {
								continue
							}
							c05Judge(c, "md", doc, f, fm, stop)
							if single {
								c05Judge(c, "root", doc, f, fm, stop)
								c05Judge(c, "iter", doc, f, fm, stop)
							}
						}
					}
				})
			})
		}
		// an option list that is the prefix of a longer list of the caller's: a walk with the prefix, then a walk with the
		// whole list, which must still have all its options (both are judged against the model)
		{
			fm := fmtTuples[1]
			full := make([]gtree.Option, 0, 8)
			full = append(full, gtree.WithBranchFormatIntermedialNode(fm.MidDirect, fm.MidIndirect), gtree.WithBranchFormatLastNode(fm.LastDirect, fm.LastIndirect))
			d, names := []int{1, 2, 3, 2, 3}, []string{"r", "a", "b", "c", "d"}
			f := enum.Build(d, names)
			for k := 0; k <= 2 && c.Take(); k++ {
				for _, route := range []string{"md", "root"} {
					for _, opts := range [][]gtree.Option{full[:k], full} {
						var rows []string
						cb := func(wn *gtree.WalkerNode) error { rows = append(rows, wn.Row()); return nil }
						var err error
						if route == "md" {
							err = gtree.WalkFromMarkdown(strings.NewReader(enum.Spell(d, names, enum.Canonical)), cb, opts...)
						} else {
							err = gtree.WalkFromRoot(sut.BuildRoot(f[0]), cb, opts...)
						}
						eff := model.DefaultFmt
						if len(opts) >= 1 {
							eff.MidDirect, eff.MidIndirect = fm.MidDirect, fm.MidIndirect
						}
						if len(opts) >= 2 {
							eff.LastDirect, eff.LastIndirect = fm.LastDirect, fm.LastIndirect
						}
						var want []string
						for _, r := range model.Rows(model.MergeNode(f[0]), eff) {
							want = append(want, r.Line)
						}
						c.Eval()
						if err != nil || strings.Join(rows, "\n") != strings.Join(want, "\n") {
							c.Violation("C05|option-list-prefix|"+route, fmt.Sprintf("walk with %d of the caller's 2 options (prefix length walked before: %d): err=%v rows=%q want %q", len(opts), k, err, rows, want), k, nil)
						}
					}
				}
			}
		}
		// walk, Add a node anywhere, walk the same root again: the second walk must describe the grown tree
		// (branches are recomputed, nothing is remembered from the first walk)
		wn := 5
		if c.Thorough() {
			wn = 6
		}
		for n := 1; n <= wn && !c.Expired(); n++ {
			enum.DepthSeqs(n, func(d []int) {
				if d[len(d)-1] == 1 && n > 1 {
					return // single-root trees only
				}
				for _, x := range d[1:] {
					if x == 1 {
						return
					}
				}
				enum.Tuples(n, 2, func(t []int) {
					if !c.Take() || c.Expired() {
						return
					}
					names := enum.Pick([]string{"a", "b"}, t)
					for parent := 0; parent < n; parent++ {
						for _, route := range []string{"root", "iter"} {
							c05WalkAddWalk(c, d, names, parent, route)
						}
					}
				})
			})
		}
		// size families: deep chains (with a trailing sibling per level) and many flat roots, every 7th stop position
		maxD := 40
		if c.Thorough() {
			maxD = 120
		}
		for depth := 1; depth <= maxD && !c.Expired(); depth++ {
			if !c.Take() {
				continue
			}
			var d []int
			var nm []string
			for l := 1; l <= depth; l++ {
				d = append(d, l)
				nm = append(nm, fmt.Sprintf("n%d", l))
			}
			for l := depth; l >= 2; l-- {
				d = append(d, l)
				nm = append(nm, fmt.Sprintf("s%d", l))
			}
			f := enum.Build(d, nm)
			doc := enum.Spell(d, nm, enum.Canonical)
			c.StateN(1)
			for stop := 0; stop <= len(d)+1; stop += 7 {
				c05Judge(c, "md", doc, f, model.DefaultFmt, stop)
				c05Judge(c, "root", doc, f, fmtTuples[1], stop)
				c05Judge(c, "iter", doc, f, model.DefaultFmt, stop)
			}
		}
		for r := 2; r <= 70 && !c.Expired(); r += 1 {
			if !c.Take() {
				continue
			}
			var d []int
			var nm []string
			for i := 0; i < r; i++ {
				d = append(d, 1, 2)
				nm = append(nm, fmt.Sprintf("root%03d", i), "kid")
			}
			c.StateN(1)
			c05Judge(c, "md", enum.Spell(d, nm, enum.Canonical), enum.Build(d, nm), model.DefaultFmt, 0)
			c05Judge(c, "md", enum.Spell(d, nm, enum.Canonical), enum.Build(d, nm), model.DefaultFmt, 2*r-1)
		}
		// the size sweep (enum/size.go) and the fingerprint twins (enum/twins.go): every row of a deep or wide tree carries
		// the right Row, Path, Level and HasChild; the walk stops where the callback says
		upTo, far, deepTo, deepFar := 300, 1030, 130, 260
		if c.Thorough() {
			upTo, far, deepTo, deepFar = 1100, 2100, 300, 520
		}
		c.Bound("size_sweep_width_every_integer_up_to", fmt.Sprint(upTo))
		c.Bound("size_sweep_depth_every_integer_up_to", fmt.Sprint(deepTo))
		c.Bound("size_sweep_depth_power_of_two_neighbours_up_to", fmt.Sprint(deepFar))
		sweep := func(s enum.SizeShape) {
			if !c.Take() || c.Expired() {
				return
			}
			f := enum.Build(s.D, s.Names)
			doc := enum.Spell(s.D, s.Names, enum.Canonical)
			c.StateN(1)
			c.Nontrivial()
			c.Inc("size_sweep_cases")
			total := model.Merge(f).Size()
			c05Judge(c, "md", doc, f, model.DefaultFmt, 0)
			if len(f) == 1 {
				c05Judge(c, []string{"root", "iter", "root-alias", "iter-alias"}[s.Size%4], doc, f, fmtTuples[1], 0)
				c05Judge(c, []string{"iter", "root"}[s.Size%2], doc, f, model.DefaultFmt, total-s.Size%3)
			} else {
				c05Judge(c, "md-alias", doc, f, fmtTuples[1], total-1)
			}
		}
		enum.DeepShapes(enum.Sizes(deepTo, deepFar), sweep)
		enum.WideShapes(enum.Sizes(upTo, far), sweep)
		enum.TwinShapes(sweep)
		// line ends: every sequence of up to four lines over an alphabet with carriage returns at the end of and inside
		// names, LF-joined, with and without a final newline: the rows handed to the callback are the lines of the text
		// output of the same document, and both calls agree on whether the document is acceptable
		{
			alpha := []string{"- a", "  - b", "- a\r", "  - b\r", "- a\r\r", "  - b \r", "\r", "  - a\rb", "    - c\r\r"}
			for L := 1; L <= 4 && !c.Expired(); L++ {
				enum.Tuples(L, len(alpha), func(t []int) {
					if !c.Take() || c.Expired() {
						return
					}
					for _, final := range []string{"\n", "", "\r\n"} {
						doc := strings.Join(enum.Pick(alpha, t), "\n") + final
						c.StateN(1)
						c.Inc("line_end_documents")
						out, oerr, _ := sut.Output(doc)
						rows, werr, _, pan := c05Run("md", doc, nil, model.DefaultFmt, 0)
						c.Eval()
						var sb strings.Builder
						for _, r := range rows {
							sb.WriteString(r.Row + "\n")
						}
						if pan != "" || (oerr == nil) != (werr == nil) || (oerr == nil && sb.String() != out) {
							c.Violation("C05|rows-differ-from-text-output|line-ends", fmt.Sprintf("doc=%q: walk err=%v panic=%q rows=%q; text output err=%v %q", doc, werr, pan, sb.String(), oerr, out), len(doc), c05Replay{"c05-lines", doc, model.DefaultFmt, "md", 0, "", ""})
						}
					}
				})
			}
		}
		// text output lines == rows (same options), on a hostile-name slice
		for n := 1; n <= 3; n++ {
			enum.DepthSeqs(n, func(d []int) {
				enum.Tuples(n, len(pathSafeHostile), func(t []int) {
					if !c.Take() {
						return
					}
					names := enum.Pick(pathSafeHostile, t)
					f := enum.Build(d, names)
					doc := enum.Spell(d, names, enum.Canonical)
					c.StateN(1)
					c.Nontrivial()
					c05Judge(c, "md", doc, f, model.DefaultFmt, 0)
					c05Judge(c, "md", doc, f, model.DefaultFmt, 0, "", "dry") // all of these names are single path elements
					if len(f) == 1 {
						c05Judge(c, "iter", doc, f, model.DefaultFmt, 0, "", "dry,exts")
					}
					out, _, _ := sut.Output(doc)
					rows, _, _, _ := c05Run("md", doc, nil, model.DefaultFmt, 0)
					var sb strings.Builder
					for _, r := range rows {
						sb.WriteString(r.Row + "\n")
					}
					if sb.String() != out {
						c.Violation("C05|rows-differ-from-text-output", fmt.Sprintf("doc=%q rows=%q text=%q", doc, sb.String(), out), len(doc), c05Replay{"c05", doc, model.DefaultFmt, "md", 0, "", ""})
					}
				})
			})
		}
	}
	replayers["c05-lines"] = func(raw json.RawMessage) bool {
		var r c05Replay
		if json.Unmarshal(raw, &r) != nil {
			return false
		}
		out, oerr, _ := sut.Output(r.Doc)
		rows, werr, _, pan := c05Run("md", r.Doc, nil, model.DefaultFmt, 0)
		var sb strings.Builder
		for _, x := range rows {
			sb.WriteString(x.Row + "\n")
		}
		fmt.Printf("doc=%q\nwalk: err=%v panic=%q rows=%q\ntext: err=%v %q\n", r.Doc, werr, pan, sb.String(), oerr, out)
		return pan != "" || (oerr == nil) != (werr == nil) || (oerr == nil && sb.String() != out)
	}
	replayers["c05"] = func(raw json.RawMessage) bool {
		var r c05Replay
		if json.Unmarshal(raw, &r) != nil {
			return false
		}
		sp := model.ParseSpec(r.Doc)
		c := rep.New("C05", "replay", "quick", 0, 1, 0, 0)
		c05Judge(c, r.Route, r.Doc, sp.Forest, r.Fmt, r.StopAt, r.ErrKind, r.Extra)
		fmt.Printf("doc:\n%s\nroute=%s stopAt=%d\n", r.Doc, r.Route, r.StopAt)
		for k, v := range c.R.ViolEx {
			fmt.Println(k, v[0].Detail)
		}
		return len(c.R.ViolCount) > 0
	}
}

var pathSafeHostile = []string{"a", "- x", "*", "é日本", "a b", "a-b", "+x*", "#h", "100%d", "<&>", "p ├── q", "C#", "a\\b"}
