package main

import (
	"bytes"
	"context"
	"encoding/json"
	"errors"
	"fmt"
	"strings"
	"sync"
	"time"

	"github.com/ddddddO/gtree"
	"github.com/fatih/color"

	"verifharness/enum"
	"verifharness/fsx"
	"verifharness/model"
	"verifharness/rep"
	"verifharness/sut"
)

// ---- C03: programmatically built trees behave exactly like the equivalent Markdown

type addCall struct {
	Parent int    `json:"parent"` // index into the list of distinct nodes created so far (-1: NewRoot)
	Name   string `json:"name"`
}

type c03Replay struct {
	Kind  string    `json:"kind"`
	Calls []addCall `json:"calls"`
	Op    string    `json:"op"`
}

// buildBoth replays a call sequence on the real API and on the model; returns an identity violation text if any.
func buildBoth(calls []addCall) (root *gtree.Node, real []*gtree.Node, mroot *model.Node, ident string) {
	var mnodes []*model.Node
	mindex := map[*model.Node]int{} // model node -> its position in mnodes / real
	kidOf := map[*model.Node]map[string]*model.Node{}
	isReal := map[*gtree.Node]bool{}
	for i, cl := range calls {
		if cl.Parent < 0 {
			root = gtree.NewRoot(cl.Name)
			mroot = &model.Node{Name: cl.Name}
			real = append(real, root)
			isReal[root] = true
			mindex[mroot] = len(mnodes)
			mnodes = append(mnodes, mroot)
			continue
		}
		mp := mnodes[cl.Parent]
		existing := -1
		if k, ok := kidOf[mp][cl.Name]; ok {
			existing = mindex[k]
		}
		got := real[cl.Parent].Add(cl.Name)
		if existing >= 0 {
			if got != real[existing] && ident == "" {
				ident = fmt.Sprintf("call %d: Add(%q) on a parent that already has that child returned a different node", i, cl.Name)
			}
			continue
		}
		if isReal[got] && ident == "" {
			ident = fmt.Sprintf("call %d: Add(%q) of a new name returned an already existing node", i, cl.Name)
		}
		mk := &model.Node{Name: cl.Name}
		mp.Kids = append(mp.Kids, mk)
		if kidOf[mp] == nil {
			kidOf[mp] = map[string]*model.Node{}
		}
		kidOf[mp][cl.Name] = mk
		real = append(real, got)
		isReal[got] = true
		mindex[mk] = len(mnodes)
		mnodes = append(mnodes, mk)
	}
	return
}

type opResult struct {
	out  string
	err  string
	rows string
	fs   string
}

func (o opResult) String() string {
	return fmt.Sprintf("out=%q err=%s rows=%q fs=%s", o.out, o.err, o.rows, o.fs)
}

func errStr(err error, target string) string {
	if err == nil {
		return "nil"
	}
	return strings.ReplaceAll(err.Error(), target, "<T>")
}

func rowsString(rows []sut.WalkRow) string {
	var sb strings.Builder
	for _, r := range rows {
		fmt.Fprintf(&sb, "%s|%s|%s|%s|%d|%v\n", r.Name, r.Branch, r.Row, r.Path, r.Level, r.HasChild)
	}
	return sb.String()
}

// the *-massive operations run the From-Root side with WithMassive (a single root: the result is schedule-independent)
// and compare it with the simple From-Markdown result
var c03Ops = []string{"text", "text-fmt1", "text-fmt5", "text-fmt2", "text-fmt7", "json", "yaml", "toml", "walk", "walkiter", "text-massive", "walk-massive", "json-massive"}

// walking with the dry-run option (names are validated): both families must hand the same nodes to the callback
// before they report the same error
var c03DryWalkOps = []string{"walk-dry", "walkiter-dry", "walk-dry-massive", "walk-nested", "walkiter-nested"}

// an encoded output right after a call of the same kind whose writer took only half of a write (whatever the failed call
// left behind must not show), and a massive walk whose context is cancelled from inside the callback (both families
// report the context's error)
var c03AfterFaultOps = []string{"json-afw", "yaml-afw", "toml-afw", "text-afw", "walk-cancel-massive"}
var massiveHung bool

// c03Matrix: combinations of output options in various orders (later encodings override earlier ones, options that
// do not concern output are ignored): both API families must agree on every one of them
var c03Matrix = []string{"matrix:fmt,json", "matrix:json,fmt", "matrix:json,yaml", "matrix:yaml,toml,json", "matrix:nil,fmt,nil", "matrix:exts,fmt",
	"matrix:noiter,fmt", "matrix:noiter,yaml", "matrix:target,strict,json", "matrix:fmt,exts,target,strict,noiter", "matrix:toml,fmt,exts"}

var c03FSOps = []string{"mkdir", "mkdir-ext", "verify", "verify-strict", "mkdir-dry", "mkdir+verify-strict", "mkdir-massive", "verify-massive", "mkdir-dry-massive"}

// c03Op runs one operation through the From-Root family (root != nil) or the From-Markdown family.
func c03Op(op string, root *gtree.Node, doc string, alias bool) (res opResult, pan string) {
	var opts []gtree.Option
	var j *fsx.Jail
	var cancelCb func()
	target := "\x00"
	needFS := false
	for _, f := range c03FSOps {
		if f == op {
			needFS = true
		}
	}
	if needFS {
		j = fsx.NewJail("c03")
		defer j.Remove()
		target = j.Target
		opts = append(opts, gtree.WithTargetDir(j.Target))
	}
	massive := false
	if strings.HasSuffix(op, "-massive") {
		op = strings.TrimSuffix(op, "-massive")
		if root != nil {
			massive = true
			opts = append(opts, gtree.WithMassive(context.Background()))
		}
	}
	if strings.HasPrefix(op, "matrix:") {
		// an arbitrary combination of output options (dry run excluded: the statement pairs it with mkdir only)
		for _, o := range strings.Split(strings.TrimPrefix(op, "matrix:"), ",") {
			switch o {
			case "json":
				opts = append(opts, gtree.WithEncodeJSON())
			case "yaml":
				opts = append(opts, gtree.WithEncodeYAML())
			case "toml":
				opts = append(opts, gtree.WithEncodeTOML())
			case "fmt":
				opts = append(opts, sut.FmtOpts(fmtTuples[6])...)
			case "exts":
				opts = append(opts, gtree.WithFileExtensions([]string{"b"}))
			case "noiter":
				opts = append(opts, gtree.WithNoUseIterOfSimpleOutput())
			case "nil":
				opts = append(opts, nil)
			case "target":
				opts = append(opts, gtree.WithTargetDir("/nonexistent/never/used"))
			case "strict":
				opts = append(opts, gtree.WithStrictVerify())
			}
		}
		op = "text"
	}
	afw := strings.HasSuffix(op, "-afw")
	op = strings.TrimSuffix(op, "-afw")
	cancelInCallback := op == "walk-cancel"
	if cancelInCallback {
		op = "walk"
		massive = true
		ctx, cancel := context.WithCancel(context.Background())
		defer cancel()
		opts = append(opts[:0:0], gtree.WithMassive(ctx))
		cancelCb = cancel
	}
	if strings.HasSuffix(op, "-dry") && strings.HasPrefix(op, "walk") {
		op = strings.TrimSuffix(op, "-dry")
		opts = append(opts, gtree.WithDryRun())
	}
	switch op {
	case "text-fmt1":
		opts = append(opts, sut.FmtOpts(fmtTuples[1])...)
	case "text-fmt5":
		opts = append(opts, sut.FmtOpts(fmtTuples[5])...)
	case "text-fmt2": // every branch string empty
		opts = append(opts, sut.FmtOpts(fmtTuples[2])...)
	case "text-fmt7": // an empty last connector, an empty intermediate continuation
		opts = append(opts, sut.FmtOpts(fmtTuples[7])...)
	case "json":
		opts = append(opts, gtree.WithEncodeJSON())
	case "yaml":
		opts = append(opts, gtree.WithEncodeYAML())
	case "toml":
		opts = append(opts, gtree.WithEncodeTOML())
	case "dry":
		opts = append(opts, gtree.WithDryRun(), gtree.WithFileExtensions([]string{"b"}))
	case "mkdir-ext", "mkdir+verify-strict":
		opts = append(opts, gtree.WithFileExtensions([]string{"b"}))
	case "verify-strict":
		opts = append(opts, gtree.WithStrictVerify())
	case "mkdir-dry":
		opts = append(opts, gtree.WithDryRun(), gtree.WithFileExtensions([]string{"b"}))
	}
	var buf bytes.Buffer
	var err error
	var rows []sut.WalkRow
	var kept []*gtree.WalkerNode // nodes handed out are kept and read again after the walk: they must still describe their own node
	var cbMu sync.Mutex          // (should a tree call the callback from several goroutines, the rows are merely out of order)
	cb := func(wn *gtree.WalkerNode) error {
		cbMu.Lock()
		defer cbMu.Unlock()
		if cancelCb != nil {
			cancelCb() // the caller gives up while the walk is running
			return nil
		}
		rows = append(rows, sut.FromWalker(wn))
		kept = append(kept, wn)
		return nil
	}
	rd := func() *strings.Reader { return strings.NewReader(doc) }
	// nested: from inside the walk (callback or loop body, at the first node) the same tree is written and walked again
	// through the same family: the inner calls are calls like any other and give what they give outside a walk
	nested := strings.HasSuffix(op, "-nested")
	op = strings.TrimSuffix(op, "-nested")
	inner := func() {
		if root != nil {
			fmt.Fprintf(&buf, "[inner err=%v]", gtree.OutputFromRoot(&buf, root))
			n := 0
			e := gtree.WalkFromRoot(root, func(*gtree.WalkerNode) error { n++; return nil })
			fmt.Fprintf(&buf, "[inner walk %d err=%v]", n, e)
		} else {
			fmt.Fprintf(&buf, "[inner err=%v]", gtree.OutputFromMarkdown(&buf, strings.NewReader(doc)))
			n := 0
			e := gtree.WalkFromMarkdown(strings.NewReader(doc), func(*gtree.WalkerNode) error { n++; return nil })
			fmt.Fprintf(&buf, "[inner walk %d err=%v]", n, e)
		}
	}
	if nested {
		plain := cb
		cb = func(wn *gtree.WalkerNode) error {
			if len(rows) == 0 {
				inner()
			}
			return plain(wn)
		}
	}
	run := func(f func()) {
		if !massive && !nested {
			pan = sut.Guard(f)
			return
		}
		// a massive call runs on real goroutines here: give it 60 s (it takes microseconds) so that a tree in which
		// the call never returns ends with a report instead of a hanging check
		if massiveHung {
			pan = "massive call skipped: an earlier massive call in this process did not return"
			return
		}
		done := make(chan string, 1)
		go func() { done <- sut.Guard(f) }()
		select {
		case pan = <-done:
		case <-time.After(60 * time.Second):
			massiveHung = true
			pan = "call (massive, or with calls nested in the walk) did not return within 60 s"
		}
	}
	run(func() {
		if afw {
			fw := &failWriter{failAt: 1, short: true}
			if root != nil {
				gtree.OutputFromRoot(fw, root, opts...)
			} else {
				gtree.OutputFromMarkdown(fw, rd(), opts...)
			}
		}
		switch op {
		case "text", "text-fmt1", "text-fmt5", "text-fmt2", "text-fmt7", "json", "yaml", "toml", "dry":
			switch {
			case root != nil && alias:
				err = gtree.OutputProgrammably(&buf, root, opts...)
			case root != nil:
				err = gtree.OutputFromRoot(&buf, root, opts...)
			case alias:
				err = gtree.Output(&buf, rd(), opts...)
			default:
				err = gtree.OutputFromMarkdown(&buf, rd(), opts...)
			}
		case "walk":
			switch {
			case root != nil && alias:
				err = gtree.WalkProgrammably(root, cb, opts...)
			case root != nil:
				err = gtree.WalkFromRoot(root, cb, opts...)
			case alias:
				err = gtree.Walk(rd(), cb, opts...)
			default:
				err = gtree.WalkFromMarkdown(rd(), cb, opts...)
			}
		case "walkiter":
			if root != nil {
				it := gtree.WalkIterFromRoot(root, opts...)
				if alias {
					it = gtree.WalkIterProgrammably(root, opts...)
				}
				for wn, e := range it {
					if e != nil {
						err = e
						break
					}
					if nested && len(rows) == 0 {
						inner()
					}
					rows = append(rows, sut.FromWalker(wn))
					kept = append(kept, wn)
				}
			} else {
				err = gtree.WalkFromMarkdown(rd(), cb, opts...)
			}
		case "mkdir", "mkdir-ext", "mkdir+verify-strict":
			switch {
			case root != nil && alias:
				err = gtree.MkdirProgrammably(root, opts...)
			case root != nil:
				err = gtree.MkdirFromRoot(root, opts...)
			case alias:
				err = gtree.Mkdir(rd(), opts...)
			default:
				err = gtree.MkdirFromMarkdown(rd(), opts...)
			}
			if op == "mkdir+verify-strict" && err == nil {
				vo := append(opts, gtree.WithStrictVerify())
				if root != nil {
					err = gtree.VerifyFromRoot(root, vo...)
				} else {
					err = gtree.VerifyFromMarkdown(rd(), vo...)
				}
			}
		case "verify", "verify-strict":
			// a directory state that has the root and its first child only, plus one extra entry
			fsx.Populate(j.Target, map[string]byte{"a/a": 'd', "a/zz": 'd', "b/a": 'd', "b/zz": 'f'})
			switch {
			case root != nil && alias:
				err = gtree.VerifyProgrammably(root, opts...)
			case root != nil:
				err = gtree.VerifyFromRoot(root, opts...)
			case alias:
				err = gtree.Verify(rd(), opts...)
			default:
				err = gtree.VerifyFromMarkdown(rd(), opts...)
			}
		case "mkdir-dry":
			old := color.Output
			color.Output = &buf
			if root != nil {
				err = gtree.MkdirFromRoot(root, opts...)
			} else {
				// the Markdown-side dry run is the route the CLI uses: Output + WithDryRun
				err = gtree.OutputFromMarkdown(&buf, rd(), opts...)
			}
			color.Output = old
		}
	})
	if pan == "" {
		pan = sut.Guard(func() {
			for _, wn := range kept {
				rows = append(rows, sut.FromWalker(wn))
			}
		})
	}
	res = opResult{out: buf.String(), err: errStr(err, target), rows: rowsString(rows)}
	if j != nil {
		res.fs = fmt.Sprint(fsx.Snapshot(j.Target))
	}
	// verify lists paths in map order: compare as a sorted set of lines
	if strings.HasPrefix(op, "verify") || op == "mkdir+verify-strict" {
		res.err = sortLines(res.err)
	}
	return
}

func sortLines(s string) string {
	l := strings.Split(s, "\n")
	// keep the two headers in place by sorting inside each section
	var out, sec []string
	flush := func() {
		if len(sec) > 0 {
			sortStrings(sec)
			out = append(out, sec...)
			sec = nil
		}
	}
	for _, x := range l {
		if strings.HasPrefix(x, "\t") {
			sec = append(sec, x)
		} else {
			flush()
			out = append(out, x)
		}
	}
	flush()
	return strings.Join(out, "\n")
}

func sortStrings(a []string) {
	for i := 1; i < len(a); i++ {
		for j := i; j > 0 && a[j] < a[j-1]; j-- {
			a[j], a[j-1] = a[j-1], a[j]
		}
	}
}

// c03OnlyOps, when set, replaces the operation list of c03Sequence (the size sweep runs big trees through a few
// operations each instead of through all of them).
var c03OnlyOps []string

// shapeCalls turns a one-root depth sequence into the NewRoot / Add calls that build it (a name written again under the
// same parent is an Add of an existing name).
func shapeCalls(d []int, names []string) []addCall {
	var calls []addCall
	type ent struct {
		idx  int
		kids map[string]int
	}
	var path []*ent // open node per level
	n := 0
	for i := range d {
		if d[i] == 1 {
			if i > 0 {
				return nil
			}
			calls = append(calls, addCall{-1, names[i]})
			path = []*ent{{0, map[string]int{}}}
			n = 1
			continue
		}
		par := path[d[i]-2]
		path = path[:d[i]-1]
		if j, ok := par.kids[names[i]]; ok {
			calls = append(calls, addCall{par.idx, names[i]})
			path = append(path, &ent{j, nil})
			// (the shapes of the sweep never descend below a re-written child's old children by name, so an empty map would
			// be wrong only if they did; keep the old map out of reach on purpose)
			path[len(path)-1].kids = map[string]int{}
			continue
		}
		calls = append(calls, addCall{par.idx, names[i]})
		par.kids[names[i]] = n
		path = append(path, &ent{n, map[string]int{}})
		n++
	}
	return calls
}

func c03Sequence(c *rep.Ctx, calls []addCall, withFS bool) {
	root, real, mroot, ident := buildBoth(calls)
	size := len(calls)
	mk := func(op string) c03Replay { return c03Replay{"c03", append([]addCall{}, calls...), op} }
	c.Trace()
	c.Trans(len(calls))
	if ident != "" {
		c.Violation("C03|add-identity", fmt.Sprintf("calls=%v: %s", calls, ident), size, mk("identity"))
	}
	doc := enum.SpellForest(model.Forest{mroot}, enum.Canonical)
	ops := append([]string{}, c03Ops...)
	if c03OnlyOps != nil {
		ops = append([]string{}, c03OnlyOps...)
	}
	if len(calls) <= 4 {
		ops = append(ops, c03Matrix...)
	}
	if len(calls) <= 5 {
		ops = append(ops, c03DryWalkOps...)
	}
	if len(calls) >= 2 && len(calls) <= 4 {
		ops = append(ops, c03AfterFaultOps...)
	}
	if withFS {
		ops = append(ops, c03FSOps...)
	}
	for _, op := range ops {
		a, pa := c03Op(op, root, doc, false)
		b, pb := c03Op(op, nil, doc, false)
		c.Eval()
		if pa != "" || pb != "" {
			c.Violation("C03|panic|"+op, fmt.Sprintf("calls=%v doc=%q: root-side panic=%q md-side panic=%q", calls, doc, pa, pb), size, mk(op))
			if strings.Contains(pa+pb, "did not return") {
				return // a call on this tree is still stuck: nothing more can be asked of it
			}
			continue
		}
		if a != b {
			c.Violation("C03|root-differs-from-markdown|"+op, fmt.Sprintf("calls=%v doc=%q\nfrom-root:     %s\nfrom-markdown: %s", calls, doc, a, b), size, mk(op))
		}
		// repeating the operation on the same tree repeats the result (branch cache is cleaned)
		if a2, _ := c03Op(op, root, doc, false); a2 != a && !strings.HasPrefix(op, "mkdir") {
			c.Violation("C03|repeat-differs|"+op, fmt.Sprintf("calls=%v\nfirst:  %s\nsecond: %s", calls, a, a2), size, mk(op))
		}
	}
	// deprecated aliases (a slice of the operations per sequence keeps the cost linear)
	for _, op := range []string{"text", "json", "walk", "walkiter"} {
		if c03OnlyOps != nil && op != c03OnlyOps[0] {
			continue
		}
		a, _ := c03Op(op, root, doc, false)
		al, pan := c03Op(op, root, doc, true)
		ma, _ := c03Op(op, nil, doc, false)
		mal, pan2 := c03Op(op, nil, doc, true)
		c.Eval()
		if pan != "" || pan2 != "" || a != al || ma != mal {
			c.Violation("C03|alias-differs|"+op, fmt.Sprintf("calls=%v\nnew:   %s\nalias: %s\nmd new:   %s\nmd alias: %s", calls, a, al, ma, mal), size, mk(op))
		}
	}
	// non-root nodes and nil are rejected with the sentinels, nothing written or created
	if len(real) > 1 || len(calls) == 1 {
		c03Rejects(c, calls, real, withFS)
	}
}

func c03Rejects(c *rep.Ctx, calls []addCall, real []*gtree.Node, withFS bool) {
	cands := []*gtree.Node{nil}
	cands = append(cands, real[1:]...)
	size := len(calls)
	for ci, n := range cands {
		want := gtree.ErrNotRoot
		if n == nil {
			want = gtree.ErrNilNode
		}
		var j *fsx.Jail
		var before fsx.Snap
		var opts []gtree.Option
		if withFS {
			j = fsx.NewJail("c03r")
			before = fsx.Snapshot(j.Root)
			opts = []gtree.Option{gtree.WithTargetDir(j.Target)}
		}
		type tc struct {
			name string
			f    func() error
		}
		var buf bytes.Buffer
		called := 0
		cb := func(*gtree.WalkerNode) error { called++; return nil }
		tests := []tc{
			{"OutputFromRoot", func() error { return gtree.OutputFromRoot(&buf, n, opts...) }},
			{"OutputFromRoot+json", func() error { return gtree.OutputFromRoot(&buf, n, gtree.WithEncodeJSON()) }},
			{"OutputProgrammably", func() error { return gtree.OutputProgrammably(&buf, n) }},
			{"WalkFromRoot", func() error { return gtree.WalkFromRoot(n, cb) }},
			{"WalkProgrammably", func() error { return gtree.WalkProgrammably(n, cb) }},
			{"WalkIterFromRoot", func() error {
				k := 0
				var first error
				for wn, e := range gtree.WalkIterFromRoot(n) {
					k++
					if wn != nil {
						called++
					}
					if first == nil {
						first = e
					}
				}
				if k != 1 {
					return fmt.Errorf("iterator yielded %d times (want exactly one (nil, err))", k)
				}
				return first
			}},
			{"WalkIterProgrammably", func() error {
				var first error
				for _, e := range gtree.WalkIterProgrammably(n) {
					if first == nil {
						first = e
					}
				}
				return first
			}},
		}
		if withFS {
			tests = append(tests,
				tc{"MkdirFromRoot", func() error { return gtree.MkdirFromRoot(n, opts...) }},
				tc{"MkdirFromRoot+dry", func() error { return gtree.MkdirFromRoot(n, append(opts, gtree.WithDryRun())...) }},
				tc{"MkdirProgrammably", func() error { return gtree.MkdirProgrammably(n, opts...) }},
				tc{"VerifyFromRoot", func() error { return gtree.VerifyFromRoot(n, opts...) }},
				tc{"VerifyProgrammably", func() error { return gtree.VerifyProgrammably(n, opts...) }},
			)
		}
		old := color.Output
		color.Output = &buf
		for _, t := range tests {
			var err error
			pan := sut.Guard(func() { err = t.f() })
			c.Eval()
			if pan != "" || !errors.Is(err, want) {
				c.Violation("C03|bad-node-not-rejected|"+t.name, fmt.Sprintf("calls=%v candidate#%d (nil=%v): %s returned %v panic=%q, want %v", calls, ci, n == nil, t.name, err, pan, want), size, c03Replay{"c03", calls, "reject"})
			}
		}
		color.Output = old
		if buf.Len() > 0 || called > 0 {
			c.Violation("C03|bad-node-wrote-or-called", fmt.Sprintf("calls=%v candidate#%d: %d bytes written, %d callbacks", calls, ci, buf.Len(), called), size, c03Replay{"c03", calls, "reject"})
		}
		if j != nil {
			if after := fsx.Snapshot(j.Root); !after.Equal(before) {
				c.Violation("C03|bad-node-changed-fs", fmt.Sprintf("calls=%v candidate#%d: %s", calls, ci, fsx.Diff(before, after)), size, c03Replay{"c03", calls, "reject"})
			}
			j.Remove()
		}
		if !withFS && ci >= 2 {
			break
		}
	}
}

func init() {
	props["C03"] = func(c *rep.Ctx) {
		maxD, fsD := 7, 5
		if c.Thorough() {
			maxD, fsD = 8, 6
		}
		c.Bound("max_calls", fmt.Sprint(maxD))
		c.Bound("max_calls_with_fs_ops", fmt.Sprint(fsD))
		names := []string{"a", "b"}
		// gen enumerates every call sequence of length D; namesAt gives the name choices of call i
		gen := func(D int, namesAt func(i int) []string, f func(calls []addCall)) {
			var rec func(calls []addCall, nodes int, kids map[int]map[string]bool)
			rec = func(calls []addCall, nodes int, kids map[int]map[string]bool) {
				if len(calls) == D {
					f(calls)
					return
				}
				for p := 0; p < nodes; p++ {
					for _, nm := range namesAt(len(calls)) {
						nn := nodes
						isNew := !kids[p][nm]
						if isNew {
							if kids[p] == nil {
								kids[p] = map[string]bool{}
							}
							kids[p][nm] = true
							nn++
						}
						rec(append(calls, addCall{p, nm}), nn, kids)
						if isNew {
							delete(kids[p], nm)
						}
					}
				}
			}
			for _, rn := range namesAt(0) {
				rec([]addCall{{-1, rn}}, 1, map[int]map[string]bool{})
			}
		}
		for D := 1; D <= maxD && !c.Expired(); D++ {
			gen(D, func(int) []string { return names }, func(calls []addCall) {
				if !c.Take() || c.Expired() {
					return
				}
				c.StateN(1)
				seen := map[string]bool{}
				for _, cl := range calls {
					k := fmt.Sprint(cl.Parent, cl.Name)
					if seen[k] {
						c.Nontrivial() // the sequence repeats an Add of an existing name
						break
					}
					seen[k] = true
				}
				if c.R.States%2000 == 1 {
					c.Sample(append([]addCall{}, calls...))
				}
				c03Sequence(c, calls, D <= fsD)
			})
		}
		// wide fan-out: k distinct children under the root, then child i re-Added (must return the existing node) and
		// given a grandchild, then one more new child; every k <= K, every i
		maxK := 16
		if c.Thorough() {
			maxK = 40
		}
		c.Bound("wide_fanout_children", fmt.Sprint(maxK))
		for k := 1; k <= maxK && !c.Expired(); k++ {
			for i := 0; i < k; i++ {
				if !c.Take() {
					continue
				}
				calls := []addCall{{-1, "r"}}
				for j := 0; j < k; j++ {
					calls = append(calls, addCall{0, fmt.Sprintf("c%02d", j)})
				}
				calls = append(calls, addCall{0, fmt.Sprintf("c%02d", i)}, addCall{i + 1, "g"}, addCall{0, "tail"}, addCall{0, fmt.Sprintf("c%02d", k-1)})
				c.StateN(1)
				c.Nontrivial()
				c.Inc("wide_fanout_sequences")
				c03Sequence(c, calls, k <= 6)
			}
		}
		// the size sweep (enum/size.go): every depth and width up to the bound, built by NewRoot / Add; each tree goes
		// through text output, a walk and two further operations that rotate with the size
		upTo, far, deepTo, deepFar := 300, 1030, 130, 260
		if c.Thorough() {
			upTo, far, deepTo, deepFar = 1100, 2100, 300, 520
		}
		c.Bound("size_sweep_width_every_integer_up_to", fmt.Sprint(upTo))
		c.Bound("size_sweep_depth_every_integer_up_to", fmt.Sprint(deepTo))
		c.Bound("size_sweep_depth_power_of_two_neighbours_up_to", fmt.Sprint(deepFar))
		rot := []string{"json", "walkiter", "text-massive", "yaml", "walk-massive", "text-fmt1", "toml", "json-massive"}
		sweep := func(s enum.SizeShape) {
			calls := shapeCalls(s.D, s.Names)
			if calls == nil || !c.Take() || c.Expired() {
				return
			}
			c.StateN(1)
			c.Nontrivial()
			c.Inc("size_sweep_sequences")
			c03OnlyOps = []string{"text", "walk", rot[s.Size%len(rot)], rot[(s.Size/len(rot)+3)%len(rot)]}
			if strings.HasPrefix(s.Tag, "chain") || strings.HasPrefix(s.Tag, "comb") {
				c03OnlyOps = []string{"text", append([]string{"walk"}, rot...)[s.Size%(len(rot)+1)]} // (cost grows with the cube of the depth)
			}
			c03Sequence(c, calls, false)
			c03OnlyOps = nil
		}
		enum.DeepShapes(enum.Sizes(deepTo, deepFar), sweep)
		enum.WideShapes(enum.Sizes(upTo, far), sweep)
		enum.TwinShapes(sweep) // sibling names that agree on cheap fingerprints (enum/twins.go)
		// a root whose own name is not a valid path element, with k children (around typical worker / fan-out thresholds):
		// every validating operation must reject it exactly as the Markdown side does, also with the massive option
		for _, k := range []int{0, 1, 3, 9, 10, 11, 16, 33} {
			for _, rn := range []string{"ro/ot", "..", "."} {
				if !c.Take() {
					continue
				}
				calls := []addCall{{-1, rn}}
				for j := 0; j < k; j++ {
					calls = append(calls, addCall{0, fmt.Sprintf("c%02d", j)})
				}
				c.StateN(1)
				c.Nontrivial()
				c03Sequence(c, calls, true)
			}
		}
		// one hostile name at one call position, D <= 4
		host := []string{"- x", "é日本", "a b", "#h", "x.b", "100%d", "p ├── q", "<&>", " a", "a ", "a\t", "x/y", "..", "."}
		for D := 1; D <= 4 && !c.Expired(); D++ {
			for hp := 0; hp < D; hp++ {
				gen(D, func(i int) []string {
					if i == hp {
						return host
					}
					return []string{"a"}
				}, func(calls []addCall) {
					if !c.Take() {
						return
					}
					c.StateN(1)
					c.Nontrivial()
					c03Sequence(c, calls, true)
				})
			}
		}
	}
	replayers["c03"] = func(raw json.RawMessage) bool {
		var r c03Replay
		if json.Unmarshal(raw, &r) != nil {
			return false
		}
		c := rep.New("C03", "replay", "quick", 0, 1, 0, 0)
		c03Sequence(c, r.Calls, true)
		for k, v := range c.R.ViolEx {
			fmt.Println(k, v[0].Detail)
		}
		return len(c.R.ViolCount) > 0
	}
}
