package main

import (
	"bytes"
	"context"
	"encoding/json"
	"errors"
	"fmt"
	"os"
	"runtime"
	"strings"
	"sync/atomic"
	"time"

	"github.com/ddddddO/gtree"
	"github.com/fatih/color"

	"verifharness/enum"
	"verifharness/fsx"
	"verifharness/rep"
	"verifharness/sut"
)

// ---- C12: no input can crash or hang the library (simple mode; massive mode is the MC part)

var c12Bytes = []byte{'-', ' ', '\t', '\n', 'a', '#', '*', '+', '\r', 0xff}

type c12Replay struct {
	Kind  string `json:"kind"`
	Input string `json:"input"` // Go-quoted
	Entry string `json:"entry"`
}

var c12Entries = []string{"text", "text-fmt-unequal", "text-noiter", "json", "yaml", "toml", "dry", "walk", "text-badwriter", "json-badwriter", "verify", "mkdir-dry", "mkdir", "mkdir-ext", "verify-strict-ext"}

// watchdog: a case that does not return within 30 s (typical: microseconds) is reported as a hang and the shard stops.
var (
	c12Current atomic.Value
	c12Tick    atomic.Int64
)

func c12Call(entry, in string, jail *fsx.Jail) (out string, err error, pan string) {
	switch entry {
	case "text":
		return sut.Output(in)
	case "text-fmt-unequal":
		// branch strings of unequal widths, one of them empty
		return sut.Output(in, gtree.WithBranchFormatIntermedialNode("|-", "| "), gtree.WithBranchFormatLastNode("`----", ""))
	case "text-noiter":
		return sut.Output(in, gtree.WithNoUseIterOfSimpleOutput())
	case "json":
		return sut.Output(in, gtree.WithEncodeJSON())
	case "yaml":
		return sut.Output(in, gtree.WithEncodeYAML())
	case "toml":
		return sut.Output(in, gtree.WithEncodeTOML())
	case "dry":
		return sut.Output(in, gtree.WithDryRun(), gtree.WithFileExtensions([]string{"a"}))
	case "text-badwriter", "json-badwriter":
		// a writer that rejects every write (closed pipe, full disk): the call must return, not crash
		var opts []gtree.Option
		if entry == "json-badwriter" {
			opts = append(opts, gtree.WithEncodeJSON())
		}
		pan = sut.Guard(func() { err = gtree.OutputFromMarkdown(brokenWriter{}, strings.NewReader(in), opts...) })
		if strings.TrimSpace(in) == "" {
			err = nil // nothing to write: nil is right; for non-blank input the result is C14's business
		}
		return "", err, pan
	case "walk":
		pan = sut.Guard(func() {
			err = gtree.WalkFromMarkdown(strings.NewReader(in), func(wn *gtree.WalkerNode) error { out += wn.Row() + "\n"; return nil })
		})
	case "verify":
		pan = sut.Guard(func() { err = gtree.VerifyFromMarkdown(strings.NewReader(in), gtree.WithTargetDir(jail.Target)) })
	case "mkdir-dry":
		pan = sut.Guard(func() {
			err = gtree.MkdirFromMarkdown(strings.NewReader(in), gtree.WithDryRun(), gtree.WithTargetDir(jail.Target))
		})
	case "mkdir":
		pan = sut.Guard(func() { err = gtree.MkdirFromMarkdown(strings.NewReader(in), gtree.WithTargetDir(jail.Target)) })
	case "mkdir-ext":
		// every childless node named ...a becomes a file, a childless root included
		pan = sut.Guard(func() {
			err = gtree.MkdirFromMarkdown(strings.NewReader(in), gtree.WithTargetDir(jail.Target), gtree.WithFileExtensions([]string{"a", "+"}))
		})
	case "verify-strict-ext":
		pan = sut.Guard(func() {
			err = gtree.VerifyFromMarkdown(strings.NewReader(in), gtree.WithTargetDir(jail.Target), gtree.WithStrictVerify(), gtree.WithFileExtensions([]string{"a"}))
		})
	}
	return
}

var c12MatrixOpts = []string{"json", "yaml", "toml", "dry", "exts", "strict", "noiter", "massive", "fmt", "nil"}

func c12OptionMatrix(c *rep.Ctx) {
	docs := []string{"", "- a\n", "- a\n  - b\n", "- a\n  - b.go\n- c\n", "- a/b\n", "- a\n  -\n", "# h\n- a\n", "- a\n      - b\n"}
	eps := []string{"out", "mkdir", "verify", "walk", "outroot", "mkdirroot", "verifyroot", "walkroot", "iterroot"}
	c.Bound("option_subsets", fmt.Sprint(1<<len(c12MatrixOpts)))
	for bits := 0; bits < 1<<len(c12MatrixOpts) && !c.Expired(); bits++ {
		if !c.Take() {
			continue
		}
		var names []string
		for i, o := range c12MatrixOpts {
			if bits&(1<<i) != 0 {
				names = append(names, o)
			}
		}
		spec := strings.Join(names, ",")
		massive := strings.Contains(spec, "massive")
		c.StateN(1)
		c.Inc("option_subsets")
		j := fsx.NewJail("c12m")
		for _, doc := range docs {
			for _, ep := range eps {
				if strings.HasSuffix(ep, "root") && doc != docs[1] {
					continue // the From-Root entry points take a tree, not a document: once per subset
				}
				c12Current.Store(ep + " options=" + spec + " " + fmt.Sprintf("%q", doc))
				c12Tick.Add(1)
				opts := append([]gtree.Option{gtree.WithTargetDir(j.Target)}, extraOpts(spec, "")...)
				var buf bytes.Buffer
				pan := guardMaybeMassive(massive, func() {
					old := color.Output
					color.Output = &buf
					defer func() { color.Output = old }()
					root := gtree.NewRoot("r")
					root.Add("a").Add("b.go")
					root.Add("x/y")
					cb := func(w *gtree.WalkerNode) error { _ = w.Row() + w.Path() + w.Branch(); return nil }
					switch ep {
					case "out":
						gtree.OutputFromMarkdown(&buf, strings.NewReader(doc), opts...)
					case "mkdir":
						gtree.MkdirFromMarkdown(strings.NewReader(doc), opts...)
					case "verify":
						gtree.VerifyFromMarkdown(strings.NewReader(doc), opts...)
					case "walk":
						gtree.WalkFromMarkdown(strings.NewReader(doc), cb, opts...)
					case "outroot":
						gtree.OutputFromRoot(&buf, root, opts...)
					case "mkdirroot":
						gtree.MkdirFromRoot(root, opts...)
					case "verifyroot":
						gtree.VerifyFromRoot(root, opts...)
					case "walkroot":
						gtree.WalkFromRoot(root, cb, opts...)
					case "iterroot":
						for w, e := range gtree.WalkIterFromRoot(root, opts...) {
							if e != nil {
								break
							}
							_ = w.Row()
						}
					}
				})
				c.Eval()
				if pan != "" {
					c.Violation("C12|panic-or-hang|option-matrix|"+ep, fmt.Sprintf("entry %s with options {%s} on %q: %s", ep, spec, doc, pan), bits, nil)
				}
			}
		}
		j.Remove()
	}
}

type brokenWriter struct{}

func (brokenWriter) Write(p []byte) (int, error) { return 0, errors.New("verif: broken writer") }

func c12One(c *rep.Ctx, in string, entries []string, jail *fsx.Jail) {
	blank := strings.TrimSpace(in) == ""
	for _, e := range entries {
		c12Current.Store(e + " " + fmt.Sprintf("%q", in))
		c12Tick.Add(1)
		var j *fsx.Jail
		if strings.HasPrefix(e, "mkdir") {
			j = fsx.NewJail("c12")
		} else if strings.HasPrefix(e, "verify") {
			j = jail
		}
		out, err, pan := c12Call(e, in, j)
		if j != nil && !strings.HasPrefix(e, "verify") {
			j.Remove()
		}
		c.Eval()
		rp := c12Replay{"c12", fmt.Sprintf("%q", in), e}
		if pan != "" {
			cls := "nonblank"
			if blank {
				cls = "empty-or-blank-input"
			}
			c.Violation("C12|panic|"+cls+"|"+e, fmt.Sprintf("entry=%s input=%q: %s", e, in, pan), len(in), rp)
			continue
		}
		if blank && (err != nil || out != "") {
			c.Violation("C12|blank-input-not-empty-nil|"+e, fmt.Sprintf("entry=%s input=%q: out=%q err=%v", e, in, out, err), len(in), rp)
		}
	}
}

func init() {
	props["C12"] = func(c *rep.Ctx) {
		maxL := 6
		if c.Thorough() {
			maxL = 7
		}
		c.Bound("max_len_raw", fmt.Sprint(maxL))
		c.Bound("alphabet", fmt.Sprintf("%q", c12Bytes))
		go func() {
			last := int64(-1)
			for {
				time.Sleep(30 * time.Second)
				cur := c12Tick.Load()
				if cur == last {
					c.Violation("C12|hang", fmt.Sprintf("case did not return within 30 s: %v", c12Current.Load()), 0, nil)
					c.Cap("stopped after a hang")
					c.Write(seqOut)
					os.Exit(0)
				}
				last = cur
			}
		}()
		jail := fsx.NewJail("c12v")
		defer jail.Remove()
		before := fsx.Snapshot(jail.Root)
		noMk := c12Entries[:len(c12Entries)-5]
		// Part 1: all byte strings of length <= maxL
		for L := 0; L <= maxL && !c.Expired(); L++ {
			enum.Tuples(L, len(c12Bytes), func(t []int) {
				if !c.Take() || c.Expired() {
					return
				}
				b := make([]byte, L)
				for i, x := range t {
					b[i] = c12Bytes[x]
				}
				in := string(b)
				c.StateN(1)
				c.Trans(L)
				c.Trace()
				if strings.TrimSpace(in) == "" {
					c.Inc("blank_inputs")
				}
				if c.R.States%100000 == 3 {
					c.Sample(fmt.Sprintf("%q", in))
				}
				ent := noMk
				if L <= 5 {
					ent = c12Entries
				}
				c12One(c, in, ent, jail)
			})
		}
		// Part 1b: the white space Unicode knows beyond blank, tab, CR and LF (vertical tab, form feed, NEL, no-break
		// and ideographic space), as tokens next to the structural bytes
		c12Tokens := []string{"-", " ", "\n", "a", "\v", "\f", "\u00a0", "\u0085", "\u3000"}
		maxT := 5
		if c.Thorough() {
			maxT = 6
		}
		c.Bound("max_len_whitespace_tokens", fmt.Sprint(maxT))
		for L := 1; L <= maxT && !c.Expired(); L++ {
			enum.Tuples(L, len(c12Tokens), func(t []int) {
				exotic := false
				for _, x := range t {
					if x >= 4 {
						exotic = true
					}
				}
				if !exotic || !c.Take() || c.Expired() {
					return
				}
				in := ""
				for _, x := range t {
					in += c12Tokens[x]
				}
				c.StateN(1)
				c.Trans(L)
				c.Inc("unicode_whitespace_inputs")
				ent := noMk
				if L <= 4 {
					ent = c12Entries
				}
				c12One(c, in, ent, jail)
			})
		}
		// Part 1b2: tokens of Markdown and HTML syntax that a parser might start to recognise (comments, fences, emphasis,
		// links, entities, escapes), every sequence of up to 4 tokens as the text of an item and of a nested item
		mdTokens := []string{"<!--", "-->", "```", "**", "[", "](", ")", "<", ">", "&amp;", "\\", "|", "~~", "`", "$", "{{", "}}", "a", " "}
		maxM := 3
		if c.Thorough() {
			maxM = 4
		}
		c.Bound("max_len_markup_tokens", fmt.Sprint(maxM))
		for L := 1; L <= maxM && !c.Expired(); L++ {
			enum.Tuples(L, len(mdTokens), func(t []int) {
				if !c.Take() || c.Expired() {
					return
				}
				txt := ""
				for _, x := range t {
					txt += mdTokens[x]
				}
				if strings.TrimSpace(txt) == "" {
					return
				}
				c.StateN(1)
				c.Inc("markup_token_inputs")
				ent := noMk
				if L <= 2 {
					ent = c12Entries
				}
				c12One(c, "- r\n  - "+txt+"\n", ent, jail)
				c12One(c, "- "+txt+"\n  - k\n", noMk[:3], jail)
			})
		}
		// Part 1c: the size sweep (enum/size.go): documents of every width and depth up to the bound (and next to the powers of
		// two beyond), well-formed and with a malformed last line, through every entry point (the mkdir entries on every
		// eighth size: they work on the file system)
		{
			upTo, far, deepTo, deepFar := 300, 1030, 130, 260
			if c.Thorough() {
				upTo, far, deepTo, deepFar = 1100, 2100, 300, 520
			}
			c.Bound("size_sweep_width_every_integer_up_to", fmt.Sprint(upTo))
			c.Bound("size_sweep_depth_every_integer_up_to", fmt.Sprint(deepTo))
			perSize := map[string]int{}
			sweep := func(sh enum.SizeShape) {
				k := fmt.Sprint(sh.Tag[:4], sh.Size)
				if perSize[k]++; perSize[k] > 8 {
					return // eight shapes per size are enough for "returns, does not crash"
				}
				if !c.Take() || c.Expired() {
					return
				}
				doc := enum.Spell(sh.D, sh.Names, enum.Spelling{Unit: "\t", Bullets: []byte("-")})
				c.StateN(1)
				c.Nontrivial()
				c.Inc("size_sweep_documents")
				ent := noMk
				if sh.Size%8 == 0 {
					ent = c12Entries
				}
				c12One(c, doc, ent, jail)
				switch perSize[k] % 3 {
				case 0:
					c12One(c, doc+"   x\n", noMk, jail)
				case 1:
					c12One(c, doc+strings.Repeat("\t", sh.D[len(sh.D)-1]+1)+"- over-nested\n", noMk, jail)
				}
			}
			enum.DeepShapes(enum.Sizes(deepTo, deepFar), sweep)
			enum.WideShapes(enum.Sizes(upTo, far), sweep)
			enum.TwinShapes(sweep)
			// wide AND wide (W children with W children each), real Mkdir and Verify with the massive option: they return
			enum.SquareShapes(enum.Sizes(12, 130), func(sh enum.SizeShape) {
				if !c.Take() || c.Expired() {
					return
				}
				doc := enum.Spell(sh.D, sh.Names, enum.Spelling{Unit: "  ", Bullets: []byte("-")})
				c.StateN(1)
				c.Inc("square_documents")
				j := fsx.NewJail("c12sq")
				var e1, e2 error
				pan := guardMaybeMassive(true, func() {
					e1 = gtree.MkdirFromMarkdown(strings.NewReader(doc), gtree.WithTargetDir(j.Target), gtree.WithMassive(context.Background()))
					e2 = gtree.VerifyFromMarkdown(strings.NewReader(doc), gtree.WithTargetDir(j.Target), gtree.WithMassive(context.Background()), gtree.WithStrictVerify())
				})
				j.Remove()
				c.Eval()
				if pan != "" {
					c.Violation("C12|hang-or-panic|massive-mkdir-verify|wide-and-wide", fmt.Sprintf("root with %d children of %d children each: %s (mkdir err=%v verify err=%v)", sh.Size, sh.Size, pan, e1, e2), sh.Size, nil)
				}
			})
		}
		// Part 2: every single-byte insertion / deletion / replacement in seed documents
		seeds := []string{
			"- a\n  - b\n    - c\n  - d\n- e\n",
			"# h\n- a\n\t- b\n",
			"* a\n    + b\n    - c\n        - d\n",
			"- a\r\n  - b\r\n\r\n- c",
			"\n\n- a\n   \n  - b\n",
			"- gtree\n\t- cmd\n\t\t- gtree\n\t\t\t- main.go\n\t- Makefile\n",
			"\xef\xbb\xbf- a\n  - b\n",      // UTF-8 byte order mark
			"- a\x00b\n  - \x00\n- c\n",     // NUL bytes
			"\xff\xfe-\x00 \x00a\x00\n\x00", // UTF-16 text given by mistake
		}
		for _, s := range seeds {
			for pos := 0; pos <= len(s); pos++ {
				var muts []string
				if pos < len(s) {
					muts = append(muts, s[:pos]+s[pos+1:])
				}
				for _, ch := range c12Bytes {
					muts = append(muts, s[:pos]+string(ch)+s[pos:])
					if pos < len(s) {
						muts = append(muts, s[:pos]+string(ch)+s[pos+1:])
					}
				}
				for _, m := range muts {
					if !c.Take() {
						continue
					}
					c.StateN(1)
					c.Nontrivial()
					c12One(c, m, c12Entries, jail)
				}
			}
		}
		// Part 3: over-long lines (bufio.Scanner's token limit) at each line position
		long := strings.Repeat("x", 65537)
		for pos := 0; pos < 3; pos++ {
			for _, pre := range []string{"- ", "  - ", "", "# "} {
				lines := []string{"- a", "  - b", "- c"}
				lines[pos] = pre + long
				if c.Take() {
					c.StateN(1)
					c.Nontrivial()
					c12One(c, strings.Join(lines, "\n")+"\n", c12Entries, jail)
				}
			}
		}
		// Part 3b: rejected and accepted rows of 10 ... 200 multi-byte characters (bytes, runes and display columns all
		// differ), and OS refusals (a 300-byte name) below targets spelled with a trailing slash, "./" or "//"
		for _, k := range []int{10, 20, 27, 30, 41, 50, 75, 79, 80, 81, 100, 200} {
			for _, ch := range []string{"日", "й", "😀", "e\u0301"} {
				if !c.Take() || c.Expired() {
					continue
				}
				long := strings.Repeat(ch, k)
				c.StateN(1)
				c.Inc("long_multibyte_rows")
				for _, doc := range []string{"- a\n" + long + "\n", "- a\n   - " + long + "\n  - b\n", long, "- " + long + "\n  - " + long + "\n", "- a\n  -" + long + "\n", "# " + long + "\n-" + long + "\n"} {
					c12One(c, doc, c12Entries, jail)
				}
			}
		}
		for _, sp := range []string{"/", "/.", "//", "/./"} {
			if !c.Take() {
				continue
			}
			for _, doc := range []string{"- a\n  - " + strings.Repeat("n", 300) + "\n", "- " + strings.Repeat("n", 300) + "\n", "- a\n  - b\x00c\n"} {
				j := fsx.NewJail("c12u")
				c12Current.Store("mkdir below target spelled with " + sp + fmt.Sprintf(" %q", doc[:12]))
				c12Tick.Add(1)
				for _, massive := range []bool{false, true} {
					pan := guardMaybeMassive(massive, func() {
						opts := []gtree.Option{gtree.WithTargetDir(j.Target + sp)}
						if massive {
							opts = append(opts, extraOpts("massive", "")...)
						}
						gtree.MkdirFromMarkdown(strings.NewReader(doc), opts...)
					})
					c.Eval()
					if pan != "" {
						c.Violation("C12|panic-or-hang|mkdir-refused-by-the-os", fmt.Sprintf("target spelled %q, massive=%v, doc %q…: %s", "<target>"+sp, massive, doc[:12], pan), 1, nil)
					}
				}
				j.Remove()
			}
		}
		// Part 3b': wide parents (9 ... 70 children) in which the first, a middle, the last but one and the last child is
		// written again (alone and with a child of its own), all entry points
		for _, k := range []int{9, 17, 33, 34, 35, 40, 65, 70} {
			if !c.Take() || c.Expired() {
				continue
			}
			var sb strings.Builder
			sb.WriteString("- r\n")
			for i := 0; i < k; i++ {
				fmt.Fprintf(&sb, "  - c%02d\n", i)
			}
			c.StateN(1)
			c.Inc("wide_parent_documents")
			for _, i := range []int{0, k / 2, k - 2, k - 1} {
				c12One(c, sb.String()+fmt.Sprintf("  - c%02d\n", i), c12Entries, jail)
				c12One(c, sb.String()+fmt.Sprintf("  - c%02d\n    - g\n  - c%02d\n  - z\n", i, k-1), c12Entries, jail)
			}
		}
		// Part 3c: massive-mode calls of every entry point with the process limited to 1, 2, 3 and 16 processors (worker
		// pools and hand-overs must not depend on how many there are)
		for _, procs := range []int{1, 2, 3, 16} {
			if !c.Take() || c.Expired() {
				continue
			}
			old := runtime.GOMAXPROCS(procs)
			c.StateN(1)
			c.Inc("processor_count_cases")
			for _, doc := range []string{"- a\n  - b\n- c\n  - d.go\n- e\n", "- a\n", "", "- a\n  -\n- b\n", "- a/b\n- c\n"} {
				for _, ep := range []string{"out", "out-json", "out-dry", "walk", "mkdir", "mkdir-dry", "verify", "outroot", "walkroot", "mkdirroot"} {
					j := fsx.NewJail("c12p")
					c12Current.Store(fmt.Sprintf("%s massive GOMAXPROCS=%d %q", ep, procs, doc))
					c12Tick.Add(1)
					opts := append([]gtree.Option{gtree.WithTargetDir(j.Target), gtree.WithFileExtensions([]string{".go"})}, extraOpts("massive", "")...)
					pan := guardMaybeMassive(true, func() {
						var buf bytes.Buffer
						oldc := color.Output
						color.Output = &buf
						defer func() { color.Output = oldc }()
						root := gtree.NewRoot("r")
						root.Add("a").Add("b.go")
						cb := func(w *gtree.WalkerNode) error { _ = w.Row(); return nil }
						switch ep {
						case "out":
							gtree.OutputFromMarkdown(&buf, strings.NewReader(doc), opts...)
						case "out-json":
							gtree.OutputFromMarkdown(&buf, strings.NewReader(doc), append(opts, gtree.WithEncodeJSON())...)
						case "out-dry":
							gtree.OutputFromMarkdown(&buf, strings.NewReader(doc), append(opts, gtree.WithDryRun())...)
						case "walk":
							gtree.WalkFromMarkdown(strings.NewReader(doc), cb, opts...)
						case "mkdir":
							gtree.MkdirFromMarkdown(strings.NewReader(doc), opts...)
						case "mkdir-dry":
							gtree.MkdirFromMarkdown(strings.NewReader(doc), append(opts, gtree.WithDryRun())...)
						case "verify":
							gtree.VerifyFromMarkdown(strings.NewReader(doc), opts...)
						case "outroot":
							gtree.OutputFromRoot(&buf, root, opts...)
						case "walkroot":
							gtree.WalkFromRoot(root, cb, opts...)
						case "mkdirroot":
							gtree.MkdirFromRoot(root, opts...)
						}
					})
					c.Eval()
					j.Remove()
					if pan != "" {
						c.Violation("C12|panic-or-hang|massive|"+ep, fmt.Sprintf("GOMAXPROCS=%d entry %s doc %q: %s", procs, ep, doc, pan), procs, nil)
					}
				}
			}
			runtime.GOMAXPROCS(old)
		}
		// Part 4: every subset of the ten options at every entry point (From-Markdown and From-Root), on eight small
		// documents (valid, with a file, malformed, invalid name, heading, empty): whatever a combination means, the call
		// returns. Calls with the massive option run on real goroutines: 60 s watchdog.
		c12OptionMatrix(c)
		if after := fsx.Snapshot(jail.Root); !after.Equal(before) {
			c.Violation("C12|verify-changed-fs", fsx.Diff(before, after), 0, nil)
		}
	}
	replayers["c12"] = func(raw json.RawMessage) bool {
		var r c12Replay
		if json.Unmarshal(raw, &r) != nil {
			return false
		}
		var in string
		fmt.Sscanf(r.Input, "%q", &in)
		j := fsx.NewJail("c12r")
		defer j.Remove()
		out, err, pan := c12Call(r.Entry, in, j)
		fmt.Printf("entry=%s input=%s\nout=%q err=%v\npanic=%s\n", r.Entry, r.Input, out, err, pan)
		return pan != "" || (strings.TrimSpace(in) == "" && (err != nil || out != ""))
	}
}
