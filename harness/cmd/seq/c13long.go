package main

import (
	"fmt"

	"verifharness/enum"
	"verifharness/rep"
)

// c13Long: long histories around size thresholds. A library may keep a per-node helper structure that appears once a
// node has many children (or a tree many levels) and that some operation forgets, rebuilds or drops: the sizes are
// therefore swept without gaps (enum/size.go), and each history puts an operation between building the big node and
// touching it again:
//
//	NewRoot, Add x W (distinct names), <operation>, Add of the existing name at an edge position (must be that child),
//	Add below it, Add of a new name, <observation>
//
// and the same for a chain of D levels (Add at the deepest and at a middle node after the operation). A second family
// grows one tree a node at a time and observes it after every single Add, kinds of observation rotating.
func c13Long(c *rep.Ctx) {
	upTo, far, deepTo, deepFar := 300, 1030, 130, 260
	if c.Thorough() {
		upTo, far, deepTo, deepFar = 1100, 2100, 300, 520
	}
	c.Bound("long_history_width_every_integer_up_to", fmt.Sprint(upTo))
	c.Bound("long_history_width_power_of_two_neighbours_up_to", fmt.Sprint(far))
	c.Bound("long_history_depth_every_integer_up_to", fmt.Sprint(deepTo))
	c.Bound("long_history_depth_power_of_two_neighbours_up_to", fmt.Sprint(deepFar))
	mids := []string{"T", "W", "J", "D", "P", "PW", "G", "X", "Z", "Y", "PD", "S", "V"}
	lasts := []string{"T", "W", "PW", "J", "D", "P"}
	for _, W := range enum.Sizes(upTo, far) {
		pos := enum.EdgePositions(W)
		for pi, i := range pos {
			if !c.Take() || c.Expired() {
				continue
			}
			hist := []hop{{K: "N", T: 0, Name: "r"}}
			for j := 0; j < W; j++ {
				hist = append(hist, hop{K: "A", T: 0, Node: 0, Name: fmt.Sprintf("c%04d", j)})
			}
			mid := mids[(W+pi)%len(mids)]
			hist = append(hist, hop{K: mid, T: 0},
				hop{K: "A", T: 0, Node: 0, Name: fmt.Sprintf("c%04d", i)},
				hop{K: "A", T: 0, Node: i + 1, Name: "g"},
				hop{K: "A", T: 0, Node: 0, Name: "new"},
				hop{K: lasts[(W/len(mids)+pi)%len(lasts)], T: 0})
			c.StateN(1)
			c.Inc("long_histories")
			c13Run(c, hist)
		}
	}
	for _, D := range enum.Sizes(deepTo, deepFar) {
		for vi, at := range []int{D - 1, D / 2} {
			if !c.Take() || c.Expired() || at < 0 {
				continue
			}
			hist := []hop{{K: "N", T: 0, Name: "n0"}}
			for l := 1; l < D; l++ {
				hist = append(hist, hop{K: "A", T: 0, Node: l - 1, Name: fmt.Sprintf("n%d", l)})
			}
			mid := mids[(D+vi)%len(mids)]
			if mid == "X" || mid == "V" {
				mid = "W"
			}
			hist = append(hist, hop{K: mid, T: 0}, hop{K: "A", T: 0, Node: at, Name: "late"})
			if at+1 < D {
				hist = append(hist, hop{K: "A", T: 0, Node: at, Name: fmt.Sprintf("n%d", at+1)}) // the existing child again
			}
			hist = append(hist, hop{K: []string{"T", "W", "J"}[(D+vi)%3], T: 0})
			c.StateN(1)
			c.Inc("long_histories")
			c13Run(c, hist)
		}
	}
	// a tree that keeps growing, observed after every Add (wide: children of the root; deep: a chain)
	if c.Take() {
		obs := []string{"T", "W", "PW", "J", "P", "D", "PD"}
		for _, deep := range []bool{false, true} {
			w := &c13World{}
			w.apply(hop{K: "N", T: 0, Name: "r"})
			n := upTo
			if deep {
				n = deepTo
			}
			for k := 1; k <= n && !c.Expired(); k++ {
				parent := 0
				if deep {
					parent = k - 1
				}
				w.apply(hop{K: "A", T: 0, Node: parent, Name: fmt.Sprintf("k%04d", k)})
				ob := obs[k%len(obs)]
				got, want, pan := w.observe(ob, 0)
				c.Eval()
				if pan != "" || got != want {
					c.Violation("C13|history-dependent-result|growing-tree|"+ob, fmt.Sprintf("a tree grown one Add at a time (deep=%v), observed after every Add; after Add number %d observation %s:\n got: %.600s\nwant: %.600s %s", deep, k, ob, got, want, pan), k, nil)
					break
				}
			}
			c.StateN(1)
			c.Inc("growing_trees")
		}
	}
}
