package main

import (
	"bufio"
	"bytes"
	"context"
	"encoding/json"
	"errors"
	"fmt"
	"io"
	"strings"

	"github.com/ddddddO/gtree"
	"github.com/fatih/color"

	"verifharness/enum"
	"verifharness/model"
	"verifharness/rep"
	"verifharness/sut"
)

// ---- C14: reader and writer failures are reported, never swallowed (simple mode; massive mode is the MC part)

var errInjR = errors.New("verif: injected reader failure")
var errInjW = errors.New("verif: injected writer failure")

type failReader struct {
	data   string
	pos    int
	fail   int    // fail once pos reaches this offset
	mode   string // "" keeps failing | "once-eof": fails once, then io.EOF | "once-resume": fails once, then delivers the rest | "same-read": the data before the offset and the error come from one Read
	err    error
	failed bool
}

func (r *failReader) Read(p []byte) (int, error) {
	e := r.err
	if e == nil {
		e = errInjR
	}
	if r.fail > len(r.data) {
		// healthy: the data, then io.EOF
		if r.pos >= len(r.data) {
			return 0, io.EOF
		}
		n := copy(p, r.data[r.pos:])
		r.pos += n
		return n, nil
	}
	if r.pos >= r.fail && !(r.failed && r.mode != "") {
		r.failed = true
		return 0, e
	}
	if r.failed {
		if r.mode == "once-eof" || r.pos >= len(r.data) {
			return 0, io.EOF
		}
		n := copy(p, r.data[r.pos:])
		r.pos += n
		return n, nil
	}
	n := copy(p, r.data[r.pos:r.fail])
	r.pos += n
	if r.mode == "same-read" && r.pos >= r.fail && n > 0 {
		r.failed = true
		r.mode = ""
		return n, e
	}
	return n, nil
}

// error flavours: what real readers and writers return is often not a plain sentinel
func flavour(name string, base error) error {
	switch name {
	case "canceled-wrapped":
		return fmt.Errorf("stream closed: %w (%w)", base, context.Canceled)
	case "deadline-wrapped":
		return fmt.Errorf("i/o timeout: %w (%w)", base, context.DeadlineExceeded)
	case "eof-wrapped":
		return fmt.Errorf("connection reset: %w (%w)", base, io.ErrUnexpectedEOF)
	}
	return base
}

type failWriter struct {
	err    error
	buf    bytes.Buffer
	writes int
	failAt int // 0 = never
	short  bool
	once   bool // transient failure: only write number failAt is rejected
	full   bool // the failing writes take all their bytes and still report the error (write-behind, quota, network sinks)
}

// flusher is a destination with a Flush method (as bufio.Writer, tabwriter, gzip have) that passes writes straight on.
type flusher struct{ w io.Writer }

func (f flusher) Write(p []byte) (int, error) { return f.w.Write(p) }
func (f flusher) Flush() error                { return nil }

// dest wraps the writer in the kind of destination the case asks for.
func (r c14Replay) dest(w *failWriter) io.Writer {
	switch r.Dest {
	case "flusher":
		return flusher{w}
	case "bufio":
		return bufio.NewWriterSize(w, 32)
	}
	return w
}

func (w *failWriter) Write(p []byte) (int, error) {
	w.writes++
	if w.failAt > 0 && (w.writes == w.failAt || (w.writes > w.failAt && !w.once)) {
		e := w.err
		if e == nil {
			e = errInjW
		}
		if w.full {
			w.buf.Write(p)
			return len(p), e
		}
		if w.short && w.writes == w.failAt && len(p) > 1 {
			w.buf.Write(p[:len(p)/2])
			return len(p) / 2, e
		}
		return 0, e
	}
	return w.buf.Write(p)
}

type c14Replay struct {
	Kind   string `json:"kind"`
	Doc    string `json:"doc"`
	Mode   string `json:"mode"`
	Route  string `json:"route"`
	Reader int    `json:"reader_fail_after"` // -1 none
	Writer int    `json:"writer_fail_at"`    // 0 none
	Short  bool   `json:"short"`
	Once   bool   `json:"once"` // transient: exactly one write is rejected, later writes are accepted
	RMode  string `json:"reader_mode,omitempty"`
	Flav   string `json:"error_flavour,omitempty"`
	Full   bool   `json:"writer_takes_all_bytes_and_fails,omitempty"`
	Dest   string `json:"destination,omitempty"` // "" the writer itself | flusher | bufio
}

func c14Opts(mode string) []gtree.Option {
	switch mode {
	case "json":
		return []gtree.Option{gtree.WithEncodeJSON()}
	case "yaml":
		return []gtree.Option{gtree.WithEncodeYAML()}
	case "toml":
		return []gtree.Option{gtree.WithEncodeTOML()}
	case "dry", "dry-colour":
		return []gtree.Option{gtree.WithDryRun(), gtree.WithFileExtensions([]string{"b"})}
	case "text-noiter":
		return []gtree.Option{gtree.WithNoUseIterOfSimpleOutput()}
	case "text-fmt":
		return sut.FmtOpts(fmtTuples[1])
	}
	return nil
}

// c14Call runs one output call with the given reader and writer.
func c14Call(r c14Replay, rd *failReader, fw *failWriter) (err error, pan string) {
	opts := c14Opts(r.Mode)
	if r.Mode == "dry-colour" {
		// colours switched on (what a terminal gives): the report carries SGR sequences, a failing writer still fails
		color.NoColor = false
		defer func() { color.NoColor = true }()
	}
	var w io.Writer = fw
	if fw != nil {
		w = r.dest(fw)
	}
	pan = sut.Guard(func() {
		switch r.Route {
		case "md":
			err = gtree.OutputFromMarkdown(w, rd, opts...)
		case "md-alias":
			err = gtree.Output(w, rd, opts...)
		case "md-walk":
			// the other entry points that read Markdown: a reader failure is returned by them as well
			err = gtree.WalkFromMarkdown(rd, func(wn *gtree.WalkerNode) error { _, e := io.WriteString(w, wn.Row()+"\n"); return e }, opts...)
		case "md-mkdir-dry":
			old := color.Output
			color.Output = w
			err = gtree.MkdirFromMarkdown(rd, gtree.WithDryRun(), gtree.WithFileExtensions([]string{"b"}))
			color.Output = old
		case "md-verify":
			err = gtree.VerifyFromMarkdown(rd, gtree.WithTargetDir("/nonexistent/never/used"))
			if err != nil && strings.HasPrefix(err.Error(), "Required paths does not exist") {
				err = nil // the document was read to its end and verified (nothing exists there): not an I/O matter
			}
		case "root":
			sp := model.ParseSpec(r.Doc)
			err = gtree.OutputFromRoot(w, sut.BuildRoot(sp.Forest[0]), opts...)
		case "root-alias":
			sp := model.ParseSpec(r.Doc)
			err = gtree.OutputProgrammably(w, sut.BuildRoot(sp.Forest[0]), opts...)
		case "root-mkdir-dry":
			sp := model.ParseSpec(r.Doc)
			old := color.Output
			color.Output = w
			err = gtree.MkdirFromRoot(sut.BuildRoot(sp.Forest[0]), gtree.WithDryRun())
			color.Output = old
		}
	})
	return
}

func c14Case(c *rep.Ctx, r c14Replay, full string) {
	rd := &failReader{data: r.Doc, fail: len(r.Doc) + 1, mode: r.RMode, err: flavour(r.Flav, errInjR)}
	if r.Reader >= 0 {
		rd.fail = r.Reader
	}
	w := &failWriter{failAt: r.Writer, short: r.Short, once: r.Once, full: r.Full, err: flavour(r.Flav, errInjW)}
	if r.Reader < 0 {
		rd = &failReader{data: r.Doc, fail: len(r.Doc)}
		// a healthy reader ends with io.EOF
		err, pan := c14CallEOF(r, w)
		c14JudgeWriter(c, r, w, err, pan, full)
		return
	}
	err, pan := c14Call(r, rd, w)
	defer c14After(c, r, full)
	c.Eval()
	c.Trans(1)
	size := len(r.Doc) + r.Reader
	desc := fmt.Sprintf("route=%s mode=%s doc=%q reader fails after %d bytes (reader mode %q, error flavour %q)", r.Route, r.Mode, r.Doc, r.Reader, r.RMode, r.Flav)
	if pan != "" {
		c.Violation("C14|panic-on-reader-failure|"+r.Mode, desc+": "+pan, size, r)
		return
	}
	if err == nil {
		c.Violation("C14|reader-failure-swallowed|"+r.Mode, desc+": the call returned nil, output "+fmt.Sprintf("%q", w.buf.String()), size, r)
		return
	}
	if !errors.Is(err, errInjR) {
		// legitimate only if the complete lines delivered before the failure are themselves rejected by a healthy run
		// (a line cut short by the failure is not "input": the reader's error, not a complaint about that fragment, is due)
		pr := r
		pr.Doc = r.Doc[:r.Reader]
		if i := strings.LastIndexByte(pr.Doc, '\n'); i >= 0 {
			pr.Doc = pr.Doc[:i+1]
		} else {
			pr.Doc = ""
		}
		pr.Reader, pr.Writer = -1, 0
		perr, _ := c14CallEOF(pr, &failWriter{})
		if perr == nil {
			c.Violation("C14|reader-error-masked|"+r.Mode, fmt.Sprintf("%s: returned %q which is not the reader's error, although the complete lines delivered before the failure (%q) are acceptable", desc, err, pr.Doc), size, r)
		} else {
			c.Inc("reader_fault_prefix_itself_rejected")
		}
	}
}

func c14CallEOF(r c14Replay, w *failWriter) (error, string) {
	var err error
	pan := sut.Guard(func() {
		switch {
		case strings.HasPrefix(r.Route, "md"):
			e, p := c14Call(r, &failReader{data: r.Doc, fail: len(r.Doc) + 1}, w)
			err = e
			if p != "" {
				panic(p)
			}
		default:
			e, p := c14Call(r, nil, w)
			err = e
			if p != "" {
				panic(p)
			}
		}
	})
	return err, pan
}

// c14After: after a call that met a failing reader or writer, the same call with healthy I/O gives the complete output.
func c14After(c *rep.Ctx, r c14Replay, full string) {
	h := r
	h.Reader, h.Writer, h.Short, h.Once, h.Full, h.Dest = -1, 0, false, false, false, ""
	w := &failWriter{}
	err, pan := c14CallEOF(h, w)
	if pan != "" || err != nil || w.buf.String() != full {
		c.Violation("C14|call-after-a-failed-call-is-corrupted|"+r.Route+"|"+r.Mode, fmt.Sprintf("after a call with reader_fail_after=%d writer_fail_at=%d (route=%s mode=%s doc=%q) the same call with healthy reader and writer gave %q err=%v panic=%q, want %q", r.Reader, r.Writer, r.Route, r.Mode, r.Doc, w.buf.String(), err, pan, full), len(r.Doc), r)
	}
}

func c14JudgeWriter(c *rep.Ctx, r c14Replay, w *failWriter, err error, pan string, full string) {
	defer c14After(c, r, full)
	c.Eval()
	c.Trans(1)
	size := len(r.Doc) + r.Writer
	desc := fmt.Sprintf("route=%s mode=%s doc=%q writer fails at write %d (short=%v transient=%v flavour=%q)", r.Route, r.Mode, r.Doc, r.Writer, r.Short, r.Once, r.Flav)
	if pan != "" {
		c.Violation("C14|panic-on-writer-failure|"+r.Mode, desc+": "+pan, size, r)
		return
	}
	if err == nil && w.buf.String() != full {
		c.Violation("C14|writer-failure-swallowed|"+r.Route+"|"+r.Mode, fmt.Sprintf("%s: the call returned nil but the writer accepted only %q of %q", desc, w.buf.String(), full), size, r)
	}
	if err == nil && r.Full && w.writes >= r.Writer {
		c.Violation("C14|writer-error-with-full-count-swallowed|"+r.Route+"|"+r.Mode, fmt.Sprintf("%s: write %d took its bytes and reported an error, the call returned nil", desc, r.Writer), size, r)
	}
}

func init() {
	props["C14"] = func(c *rep.Ctx) {
		docs := []string{"- a\n  - b\n    - c\n  - b\n- d\n- e\n  - f\n", "# a\n- b\n\t- c\n# d\n", "* a\r\n  + b\r\n\r\n* c"}
		maxN := 3
		if c.Thorough() {
			maxN = 4
			docs = append(docs, "- a\n  - b\n  - c\n  - d\n  - e\n  - f\n  - g\n  - h\n")
		}
		// a document whose output is larger than the usual I/O buffers (4096 bytes): failures of late writes
		{
			var sb strings.Builder
			sb.WriteString("- big\n")
			for i := 0; i < 170; i++ {
				fmt.Fprintf(&sb, "  - child-%03d-xxxxxxxxxxxxxxxxxxxx\n", i)
			}
			sb.WriteString("- second\n  - k\n")
			docs = append(docs, sb.String())
		}
		// names with printf verbs (an error that is built around a name must still be the reader's), and a line longer than
		// the usual read buffers (reader failures inside it: every 512th offset and around the 4096-byte boundaries)
		docs = append(docs, "- 100%\n  - 50% done\n- %s\n  - %w%v\n")
		longDoc := "- a\n  - " + strings.Repeat("y", 9000) + "\n- c\n"
		// every forest with n <= maxN nodes over {a,b}, canonical spelling
		for n := 1; n <= maxN; n++ {
			enum.DepthSeqs(n, func(d []int) {
				enum.Tuples(n, 2, func(t []int) {
					docs = append(docs, enum.Spell(d, enum.Pick([]string{"a", "b"}, t), enum.Canonical))
				})
			})
		}
		modes := []string{"text", "text-noiter", "text-fmt", "json", "yaml", "toml", "dry", "dry-colour"}
		c.Bound("documents", fmt.Sprint(len(docs)))
		if c.Take() {
			for _, mode := range []string{"text", "json", "dry", "text-noiter"} {
				for _, route := range []string{"md", "md-walk"} {
					if route == "md-walk" && mode != "text" {
						continue
					}
					base := c14Replay{Kind: "c14", Doc: longDoc, Mode: mode, Route: route, Reader: -1}
					w0 := &failWriter{}
					if err0, pan0 := c14CallEOF(base, w0); err0 != nil || pan0 != "" {
						c.Violation("C14|fault-free-run-failed", fmt.Sprintf("long-line document mode=%s route=%s: %v %s", mode, route, err0, pan0), len(longDoc), base)
						continue
					}
					fullLong := w0.buf.String()
					for i := 1; i < len(longDoc); i++ {
						near := false
						for b := 4096; b < len(longDoc); b += 4096 {
							if i >= b-10 && i <= b+10 {
								near = true
							}
						}
						if !(near || i%512 == 0 || i < 12 || i > len(longDoc)-8) {
							continue
						}
						r := base
						r.Reader = i
						c.Nontrivial()
						c.Inc("long_line_reader_faults")
						c14Case(c, r, fullLong)
					}
				}
			}
		}
		for _, doc := range docs {
			sp := model.ParseSpec(doc)
			single := len(sp.Forest) == 1
			for _, mode := range modes {
				if mode == "toml" && !single {
					continue
				}
				routes := []string{"md"}
				if single && mode != "text-noiter" {
					routes = append(routes, "root")
				}
				if len(doc) <= 16 {
					routes = append(routes, "md-alias")
					if single && mode != "text-noiter" {
						routes = append(routes, "root-alias")
					}
					if mode == "text" {
						routes = append(routes, "md-walk", "md-mkdir-dry", "md-verify")
					}
				}
				for _, route := range routes {
					if !c.Take() {
						continue
					}
					base := c14Replay{Kind: "c14", Doc: doc, Mode: mode, Route: route, Reader: -1}
					// fault-free run: full output and number of writes
					w0 := &failWriter{}
					err0, pan0 := c14CallEOF(base, w0)
					if err0 != nil || pan0 != "" {
						c.Violation("C14|fault-free-run-failed", fmt.Sprintf("doc=%q mode=%s route=%s: %v %s", doc, mode, route, err0, pan0), len(doc), base)
						continue
					}
					full := w0.buf.String()
					c.StateN(1)
					c.Trace()
					if c.R.States%50 == 1 {
						c.Sample(map[string]any{"doc": doc, "mode": mode, "route": route, "writes_fault_free": w0.writes, "reader_offsets": len(doc)})
					}
					_ = (map[string]any{"doc": doc, "mode": mode, "route": route, "writes_fault_free": w0.writes, "reader_offsets": len(doc)})
					for j := 1; j <= w0.writes; j++ {
						for _, short := range []bool{false, true} {
							r := base
							r.Writer, r.Short = j, short
							c.Nontrivial()
							c14Case(c, r, full)
						}
						r := base
						r.Writer, r.Once = j, true
						c14Case(c, r, full)
						r = base
						r.Writer, r.Full = j, true
						c14Case(c, r, full)
						if j <= 2 {
							r = base
							r.Writer, r.Dest = j, "flusher"
							c14Case(c, r, full)
						}
						if j <= 3 {
							for _, fl := range []string{"canceled-wrapped", "deadline-wrapped", "eof-wrapped"} {
								r := base
								r.Writer, r.Flav = j, fl
								c14Case(c, r, full)
							}
						}
					}
					if strings.HasPrefix(route, "md") {
						for i := 0; i < len(doc); i++ {
							r := base
							r.Reader = i
							c.Nontrivial()
							c14Case(c, r, full)
							if i%3 == 0 || i == len(doc)-1 {
								// destinations that have a Flush method of their own
								for _, ds := range []string{"flusher", "bufio"} {
									r := base
									r.Reader, r.Dest = i, ds
									c14Case(c, r, full)
								}
							}
							if i <= 6 || i%5 == 0 {
								for _, rm := range []string{"once-eof", "once-resume", "same-read"} {
									r := base
									r.Reader, r.RMode = i, rm
									c14Case(c, r, full)
								}
								for _, fl := range []string{"canceled-wrapped", "deadline-wrapped", "eof-wrapped"} {
									r := base
									r.Reader, r.Flav = i, fl
									c14Case(c, r, full)
								}
							}
						}
					}
				}
			}
			if single && c.Take() {
				base := c14Replay{Kind: "c14", Doc: doc, Mode: "dry", Route: "root-mkdir-dry", Reader: -1}
				w0 := &failWriter{}
				if err0, pan0 := c14CallEOF(base, w0); err0 == nil && pan0 == "" {
					for j := 1; j <= w0.writes; j++ {
						r := base
						r.Writer = j
						c14Case(c, r, w0.buf.String())
					}
				}
			}
		}
	}
	// one root whose rendering is larger than 32 and 64 KiB (and a small root after it): a writer that fails at the first
	// writes, in the middle, at the last but one and at the last write of the fault-free run, in every flavour
	bigRoots := props["C14"]
	props["C14"] = func(c *rep.Ctx) {
		bigRoots(c)
		for _, kids := range []int{1100, 2300} {
			var sb strings.Builder
			sb.WriteString("- big\n")
			for i := 0; i < kids; i++ {
				fmt.Fprintf(&sb, "  - child-%04d-xxxxxxxxxxxxxxxxxxxx\n", i)
			}
			for _, tailRoot := range []string{"", "- second\n  - k\n"} {
				doc := sb.String() + tailRoot
				for _, mode := range []string{"text", "text-noiter", "dry", "json"} {
					routes := []string{"md"}
					if tailRoot == "" && mode != "text-noiter" {
						routes = append(routes, "root")
					}
					for _, route := range routes {
						if !c.Take() || c.Expired() {
							continue
						}
						base := c14Replay{Kind: "c14", Doc: doc, Mode: mode, Route: route, Reader: -1}
						w0 := &failWriter{}
						if err0, pan0 := c14CallEOF(base, w0); err0 != nil || pan0 != "" {
							c.Violation("C14|fault-free-run-failed", fmt.Sprintf("big root (%d children) mode=%s route=%s: %v %s", kids, mode, route, err0, pan0), kids, nil)
							continue
						}
						full := w0.buf.String()
						c.StateN(1)
						c.Inc("big_root_cases")
						idx := map[int]bool{1: true, 2: true, 3: true, w0.writes / 2: true, w0.writes - 1: true, w0.writes: true}
						for j := range idx {
							if j < 1 || j > w0.writes {
								continue
							}
							for v := 0; v < 4; v++ {
								r := base
								r.Writer = j
								r.Short, r.Once, r.Full = v == 1, v == 2, v == 3
								c.Nontrivial()
								c14Case(c, r, full)
							}
						}
					}
				}
			}
		}
	}
	replayers["c14"] = func(raw json.RawMessage) bool {
		var r c14Replay
		if json.Unmarshal(raw, &r) != nil {
			return false
		}
		c := rep.New("C14", "replay", "quick", 0, 1, 0, 0)
		base := r
		base.Reader, base.Writer = -1, 0
		w0 := &failWriter{}
		c14CallEOF(base, w0)
		c14Case(c, r, w0.buf.String())
		for k, v := range c.R.ViolEx {
			fmt.Println(k, v[0].Detail)
		}
		return len(c.R.ViolCount) > 0
	}
}
