package main

import (
	"encoding/json"
	"fmt"
	"os"
)

// replayers are registered per replay "kind"; each re-executes one recorded case
// against the real code, prints both sides and returns true iff the violation reproduces.
var replayers = map[string]func(raw json.RawMessage) bool{}

func doReplay(path string) int {
	b, err := os.ReadFile(path)
	if err != nil {
		fmt.Fprintln(os.Stderr, err)
		return 3
	}
	var env struct {
		Property  string          `json:"property"`
		Signature string          `json:"signature"`
		Detail    string          `json:"detail"`
		Replay    json.RawMessage `json:"replay"`
	}
	if err := json.Unmarshal(b, &env); err != nil {
		fmt.Fprintln(os.Stderr, err)
		return 3
	}
	var k struct {
		Kind string `json:"kind"`
	}
	_ = json.Unmarshal(env.Replay, &k)
	fmt.Printf("replaying %s %s (kind %s)\nrecorded: %s\n", env.Property, env.Signature, k.Kind, env.Detail)
	f, ok := replayers[k.Kind]
	if !ok {
		fmt.Println("no replayer for this kind in this binary")
		return 3
	}
	if f(env.Replay) {
		fmt.Println("REPRODUCED")
		return 1
	}
	fmt.Println("not reproduced (property holds on this case now)")
	return 0
}
