// wasmdrv: one driver source compiled twice (with and without -tags tinywasm). It enumerates the
// C17 case space itself and prints one line per case: index, accept/reject, hash of the output.
// With -detail <index> it prints the full record of that case as JSON.
package main

import (
	"bufio"
	"bytes"
	"encoding/json"
	"flag"
	"fmt"
	"hash/fnv"
	"os"
	"strings"

	"github.com/ddddddO/gtree"
	"github.com/fatih/color"

	"verifharness/enum"
)

// the named modes plus every subset of the option set {custom branches, JSON, dry run, extensions} in two orders
// ("opts:<bits>" / "opts-rev:<bits>"): whatever a combination means, both builds must agree on it
var modes = func() []string {
	m := []string{"text", "custom", "json", "dry", "custom-empty", "custom-mixed", "dry-blank-ext", "dry-dup-ext"}
	for bits := 3; bits < 16; bits++ {
		if bits&(bits-1) == 0 {
			continue // single options are the named modes
		}
		if bits&2 != 0 && bits&4 != 0 {
			continue // JSON together with dry run is not among the configurations the property lists (the builds do differ there)
		}
		m = append(m, fmt.Sprintf("opts:%d", bits))
	}
	return append(m, "opts-rev:13", "opts-rev:11", "opts:nil-option")
}()

func opts(mode string) []gtree.Option {
	if strings.HasPrefix(mode, "opts") {
		all := []gtree.Option{
			gtree.WithBranchFormatIntermedialNode("+--", ":   "),
			gtree.WithEncodeJSON(),
			gtree.WithDryRun(),
			gtree.WithFileExtensions([]string{".go", "b"}),
		}
		if mode == "opts:nil-option" {
			return []gtree.Option{nil, gtree.WithBranchFormatLastNode("`--", "    "), nil}
		}
		var bits int
		rev := strings.HasPrefix(mode, "opts-rev:")
		fmt.Sscanf(mode[strings.Index(mode, ":")+1:], "%d", &bits)
		var o []gtree.Option
		for i, x := range all {
			if bits&(1<<i) != 0 {
				o = append(o, x)
			}
		}
		if rev {
			for i, j := 0, len(o)-1; i < j; i, j = i+1, j-1 {
				o[i], o[j] = o[j], o[i]
			}
		}
		return o
	}
	switch mode {
	case "custom":
		// the four strings cmd/gtree-wasm composes from its form fields
		return []gtree.Option{gtree.WithBranchFormatLastNode("`"+"--", "    "), gtree.WithBranchFormatIntermedialNode("+"+"--", ":"+"   ")}
	case "custom-empty":
		// every box of the web form left empty
		return []gtree.Option{gtree.WithBranchFormatLastNode("", ""), gtree.WithBranchFormatIntermedialNode("", "")}
	case "custom-mixed":
		// some boxes empty, a multi-byte one, unequal widths
		return []gtree.Option{gtree.WithBranchFormatLastNode("╚══════", ""), gtree.WithBranchFormatIntermedialNode("", "|   ")}
	case "json":
		return []gtree.Option{gtree.WithEncodeJSON()}
	case "dry":
		return []gtree.Option{gtree.WithDryRun(), gtree.WithFileExtensions([]string{".go", "b"})}
	case "dry-blank-ext":
		// what splitting an empty or sloppy extensions field on commas yields: empty and blank entries
		return []gtree.Option{gtree.WithDryRun(), gtree.WithFileExtensions([]string{".go", "", " "})}
	case "dry-dup-ext":
		return []gtree.Option{gtree.WithFileExtensions([]string{"a", ".go", "a", "b.go"}), gtree.WithDryRun()}
	}
	return nil
}

type record struct {
	Index int64  `json:"index"`
	Doc   string `json:"doc"`
	Mode  string `json:"mode"`
	Err   string `json:"err"`
	Out   string `json:"out"`
	Panic string `json:"panic"`
}

func run(doc, mode string) (out string, err error, pan string) {
	var buf bytes.Buffer
	func() {
		defer func() {
			if r := recover(); r != nil {
				pan = fmt.Sprint(r)
			}
		}()
		err = gtree.Output(&buf, strings.NewReader(doc), opts(mode)...)
	}()
	return buf.String(), err, pan
}

func lineAlphabet(u string) []string {
	return []string{"- a", "- b", u + "- a", u + "- b", u + u + "- a", u + u + u + "- a", u[:len(u)/2] + " - a", u + "a", u + "-", "\t " + "- a", "", "   ", "# h", "* a", "+ b.go", u + "* b",
		u + "- x/y",     // not a valid path element: dry run must reject it (in both builds, whatever was rendered before)
		"- r/s", "- ..", // the same for a root (with or without items below it)
		u + "- <&>\"",               // characters with special treatment in JSON / HTML
		u + "- p ├── └── +-- `-- q", // a name that contains every connector in use, each followed by a blank
	}
}

// cases enumerates every case in a fixed order; want(docIdx) says whether the document is needed
// (documents of other shards are not even built).
func cases(tier string, want func(docIdx int64) bool, f func(idx int64, doc, mode string) bool) {
	var docIdx, caseIdx int64
	maxL, maxN := 4, 7
	if tier == "thorough" {
		maxL, maxN = 5, 8
	}
	ok := true
	nModes := len(modes)
	// emit runs one document through the first nm modes (the six named modes; or all, incl. the option matrix)
	emitN := func(nm int, mk func() string) {
		if !ok {
			return
		}
		if want(docIdx) {
			doc := mk()
			for mi := 0; mi < nm; mi++ {
				if !f(caseIdx+int64(mi), doc, modes[mi]) {
					ok = false
					return
				}
			}
		}
		caseIdx += int64(nm)
		docIdx++
	}
	emit := func(mk func() string) { emitN(nModes, mk) }
	for _, unit := range []string{"  ", "\t"} {
		alpha := lineAlphabet(unit)
		for L := 0; L <= maxL && ok; L++ {
			enum.Tuples(L, len(alpha), func(t []int) {
				if !ok {
					return
				}
				nm := nModes
				if L >= 4 {
					nm = 8 // the longest documents go through the named modes only
				}
				emitN(nm, func() string {
					doc := strings.Join(enum.Pick(alpha, t), "\n")
					if L > 0 {
						doc += "\n"
					}
					return doc
				})
			})
		}
	}
	// the end of the document: names with trailing blanks, blank-only names and exotic white space on the LAST item,
	// followed by every kind of ending (nothing, one or more line ends, blank lines, CRLF)
	for _, unit := range []string{"  ", "\t"} {
		alpha := lineAlphabet(unit)[:6]
		tails := []string{"- a  ", "- a\t", unit + "- b \t ", unit + "-\t", unit + "-   ", unit + "- a\u00a0", "- a\v", unit + "- \u3000"}
		ends := []string{"", "\n", "\n\n", "\n \t\n", "\r\n", " ", "\n\v\n"}
		for L := 0; L <= 2 && ok; L++ {
			enum.Tuples(L, len(alpha), func(t []int) {
				for _, tl := range tails {
					for _, en := range ends {
						if !ok {
							return
						}
						emitN(8, func() string {
							doc := strings.Join(enum.Pick(alpha, t), "\n")
							if L > 0 {
								doc += "\n"
							}
							return doc + tl + en
						})
					}
				}
			})
		}
	}
	// size families: wide fan-out, deep chains, many roots (with a repeated sibling name and a file-like leaf)
	for size := 1; size <= 40 && ok; size++ {
		var dw, dc, dr []int
		var nw, nc, nr []string
		dw, nw = append(dw, 1), append(nw, "wide")
		for i := 0; i < size; i++ {
			dw = append(dw, 2)
			nw = append(nw, fmt.Sprintf("c%02d", i%37))
			dc = append(dc, i+1)
			nc = append(nc, fmt.Sprintf("n%02d", i))
			dr = append(dr, 1, 2)
			nr = append(nr, fmt.Sprintf("root%02d", i), "k.go")
		}
		dw = append(dw, 2, 3)
		nw = append(nw, "c00", "late.go")
		for _, t := range [][2]any{{dw, nw}, {dc, nc}, {dr, nr}} {
			d, n := t[0].([]int), t[1].([]string)
			emit(func() string { return enum.Spell(d, n, enum.Spelling{Unit: "  ", Bullets: []byte("-")}) })
		}
	}
	// raw byte strings (binary, invalid UTF-8, CR, NUL, a byte order mark): every string of up to 4 bytes over an
	// 11-byte alphabet, and the same bytes inserted at every position of two seed documents
	rawAlpha := []byte{'-', ' ', '\t', '\n', 'a', '#', '*', '+', '\r', 0xff, 0}
	for L := 1; L <= 4 && ok; L++ {
		enum.Tuples(L, len(rawAlpha), func(t []int) {
			emitN(6, func() string {
				b := make([]byte, L)
				for i, x := range t {
					b[i] = rawAlpha[x]
				}
				return string(b)
			})
		})
	}
	for _, seed := range []string{"- a\n  - b\n    - c.go\n- d\n", "\xef\xbb\xbf# h\n- a\n\t- b\n"} {
		for pos := 0; pos <= len(seed) && ok; pos++ {
			for _, ch := range rawAlpha {
				emitN(6, func() string { return seed[:pos] + string(ch) + seed[pos:] })
				if pos < len(seed) {
					emitN(6, func() string { return seed[:pos] + string(ch) + seed[pos+1:] })
				}
			}
		}
	}
	// lines around the scanner's token limit (64 KiB) and far beyond it
	for _, ln := range []int{4095, 4096, 65500, 65535, 65536, 65537, 100000, 262143, 262145, 300000} {
		for _, pre := range []string{"- ", "  - ", "# ", "first:- ", "first:", "first:\n\n- "} {
			if !ok {
				break
			}
			if strings.HasPrefix(pre, "first:") {
				// the long line is the first non-blank line of the document
				head := strings.TrimPrefix(pre, "first:")
				emitN(8, func() string { return head + strings.Repeat("x", ln) + "\n- c\n  - d\n" })
				continue
			}
			emitN(8, func() string {
				lines := []string{"- a", "  - b", "- c"}
				if pre == "  - " {
					lines[1] = pre + strings.Repeat("x", ln)
				} else {
					lines[2] = pre + strings.Repeat("x", ln)
				}
				return strings.Join(lines, "\n") + "\n"
			})
		}
	}
	for n := 1; n <= maxN && ok; n++ {
		enum.DepthSeqs(n, func(d []int) {
			enum.Tuples(n, 2, func(t []int) {
				if !ok {
					return
				}
				emit(func() string {
					return enum.Spell(d, enum.Pick([]string{"a", "b.go"}, t), enum.Spelling{Unit: "    ", Bullets: []byte("-*+")})
				})
			})
		})
	}
	// the size sweep (enum/size.go: every width and depth up to the bound, then the neighbours of the powers of two) and
	// the fingerprint twins (enum/twins.go): the two builds have readers and growers of their own, so a size threshold
	// or a name shortcut in one of them shows only here
	upTo, far, deepTo, deepFar := 300, 1030, 130, 260
	if tier == "thorough" {
		upTo, far, deepTo, deepFar = 1100, 2100, 300, 520
	}
	sweep := func(sh enum.SizeShape) {
		names := make([]string, len(sh.Names))
		for i, nm := range sh.Names {
			names[i] = nm
			if strings.HasPrefix(nm, "c0") || strings.HasPrefix(nm, "c1") || nm == "bk" {
				names[i] = nm + ".go" // (the dry-run mode has ".go" among its extensions)
			}
		}
		emitN(4, func() string { return enum.Spell(sh.D, names, enum.Spelling{Unit: "\t", Bullets: []byte("-*")}) })
	}
	enum.DeepShapes(enum.Sizes(deepTo, deepFar), sweep)
	enum.WideShapes(enum.Sizes(upTo, far), sweep)
	enum.TwinShapes(sweep)
	// one root whose rendering is larger than a typical buffer (4 KiB, 64 KiB, thorough: 1 MiB; just below and above) among small
	// roots, at the first, a middle and the last place: the roots come out in document order, whatever their sizes
	bigKids := []int{280, 300, 4600, 4800}
	if tier == "thorough" {
		bigKids = append(bigKids, 72000, 76000) // (the tinywasm spreader is quadratic in the size of its output)
	}
	for _, kids := range bigKids {
		for _, place := range []int{0, 1, 2} {
			emitN(2, func() string {
				var sb strings.Builder
				for r := 0; r < 3; r++ {
					if r == place {
						sb.WriteString("- big\n")
						for i := 0; i < kids; i++ {
							fmt.Fprintf(&sb, "\t- k%06d\n", i)
						}
					} else {
						fmt.Fprintf(&sb, "- small%d\n\t- s\n", r)
					}
				}
				return sb.String()
			})
		}
	}
	// lines made of the marker characters themselves ("---" is the item "--"), every sequence of up to three lines
	{
		u := "  "
		alpha := []string{"- a", u + "- b", "---", "***", "+++", "--", "**", "-- -", u + "---", u + "****", u + "--", "- ---", "___", "###", "## #", "----  ", u + u + "- c", u + "+++"}
		for L := 1; L <= 3 && ok; L++ {
			enum.Tuples(L, len(alpha), func(t []int) {
				emitN(4, func() string { return strings.Join(enum.Pick(alpha, t), "\n") + "\n" })
			})
		}
	}
	// white-space-only lines of every kind (enum.ExoticBlanks) at every position of every forest of up to three nodes,
	// and the line-end alphabet (carriage returns at the end of and inside names)
	for n := 1; n <= 3 && ok; n++ {
		enum.DepthSeqs(n, func(d0 []int) {
			d := append([]int{}, d0...)
			names := []string{"a", "b.go", "c"}[:n]
			for pos := 0; pos <= n; pos++ {
				for g := 9; g < 9+len(enum.ExoticBlanks); g++ {
					gaps := make([]int, n+1)
					gaps[pos] = g
					emitN(4, func() string {
						return enum.Spell(d, names, enum.Spelling{Unit: "  ", Bullets: []byte("-"), Gaps: gaps, CRLF: (g+pos)%3 == 0})
					})
				}
			}
		})
	}
	{
		alpha := []string{"- a", "  - b", "- a\r", "  - b\r", "- a\r\r", "  - b \r", "\r", "  - a\rb", "    - c\r\r"}
		for L := 1; L <= 3 && ok; L++ {
			enum.Tuples(L, len(alpha), func(t []int) {
				for _, final := range []string{"\n", "", "\r\n"} {
					emitN(4, func() string { return strings.Join(enum.Pick(alpha, t), "\n") + final })
				}
			})
		}
	}
}

func main() {
	tier := flag.String("tier", "quick", "")
	shard := flag.Int("shard", 0, "")
	nshards := flag.Int("nshards", 1, "")
	detail := flag.Int64("detail", -1, "")
	flag.Parse()
	color.NoColor = true
	w := bufio.NewWriterSize(os.Stdout, 1<<16)
	defer w.Flush()
	if *detail >= 0 {
		cases(*tier, func(di int64) bool { return true }, func(idx int64, doc, mode string) bool {
			if idx != *detail {
				return true
			}
			out, err, pan := run(doc, mode)
			r := record{Index: idx, Doc: doc, Mode: mode, Out: out, Panic: pan}
			if err != nil {
				r.Err = err.Error()
			}
			b, _ := json.Marshal(r)
			w.Write(b)
			w.WriteByte('\n')
			return false
		})
		return
	}
	cases(*tier, func(di int64) bool { return int(di%int64(*nshards)) == *shard }, func(idx int64, doc, mode string) bool {
		out, err, pan := run(doc, mode)
		h := fnv.New64a()
		h.Write([]byte(out))
		verdict := "ok"
		if pan != "" {
			verdict = "panic"
		} else if err != nil {
			verdict = "err"
			h.Reset() // on rejection only the decision is compared
		}
		bl := "nonblank"
		if strings.TrimSpace(doc) == "" {
			bl = "blank-input"
		}
		fmt.Fprintf(w, "%d %s %x %s %s\n", idx, verdict, h.Sum64(), mode, bl)
		return true
	})
}
