//go:build mcbuild

package main

import (
	"errors"
	"fmt"
	"strings"
	"verifharness/model"

	mc "github.com/ddddddO/gtree/verifmc"
)

// ---- C14 (massive mode): reader and writer failures are reported under every schedule within the bound

type c14Exec struct {
	*DrvRun
	full           string
	prefixRejected bool
	name           string
}

func (e *c14Exec) Outcome() string {
	return fmt.Sprintf("err=%v isReaderErr=%v out=%s", e.Err != nil, errors.Is(e.Err, errReader), short(e.Out))
}

func (e *c14Exec) Check(o *mc.Outcome) []Viol {
	e.Finish()
	if !e.Returned || o.End() == "panic" {
		return nil // C11 / C12
	}
	var vs []Viol
	d := e.d
	accepted := e.W.buf.String()
	if d.WriterFailAt > 0 {
		if e.Err == nil && !sameBlocks(accepted, e.full) {
			vs = append(vs, Viol{"C14|writer-failure-swallowed|massive|" + d.Op, fmt.Sprintf("driver %s: the call returned nil but the writer accepted only %q of %q", d, accepted, e.full)})
		}
	}
	if d.ReaderFailAfter >= 0 {
		switch {
		case e.Err == nil:
			vs = append(vs, Viol{"C14|reader-failure-swallowed|massive|" + d.Op, fmt.Sprintf("driver %s: the reader failed after %d bytes but the call returned nil (output %q)", d, d.ReaderFailAfter, accepted)})
		case !errors.Is(e.Err, errReader) && !e.prefixRejected:
			vs = append(vs, Viol{"C14|reader-error-masked|massive|" + d.Op, fmt.Sprintf("driver %s: returned %q, not the reader's error, although the delivered prefix is acceptable", d, e.Err)})
		}
	}
	return vs
}

func init() {
	scenarioGens["C14"] = func(tier string) []*Scenario {
		k := 1
		pols := []int{0, 1}
		if tier == "thorough" {
			k = 2
			pols = []int{0, 1, 2}
		}
		docs := []string{"- a\n  - b\n- c\n", "- a\n- b\n  - c\n- d\n"}
		var out []*Scenario
		for di, doc := range docs {
			for _, op := range []string{"out-text", "out-json", "out-yaml", "out-dry"} {
				// fault-free reference (simple mode, same build): complete output and the number of writes
				ref := NewDrv(op, doc)
				ref.Simple, ref.NoYield = true, true
				rr := ref.New()
				rr.Body()
				rr.Finish()
				if rr.Err != nil {
					continue
				}
				full, writes := rr.Out, rr.W.writes
				if writes > 6 {
					writes = 6
				}
				for j := 1; j <= writes; j++ {
					for vi, variant := range []string{"plain", "short", "transient"} {
						short, once := variant == "short", variant == "transient"
						if short && j > 2 {
							continue
						}
						_ = vi
						d := NewDrv(op, doc)
						d.WriterFailAt, d.WriterShort, d.WriterOnce = j, short, once
						name := fmt.Sprintf("c14/doc%d/%s/writer@%d/%s", di, op, j, variant)
						out = append(out, &Scenario{Name: name, Prop: "C14", Workers: w2, Bound: k, Policies: pols,
							New: func() Exec { return &c14Exec{DrvRun: d.New(), full: full, name: name} }})
					}
				}
				// errors that wrap a cancellation / deadline of something else (the call's own context is alive)
				for _, fl := range []string{"canceled-wrapped", "deadline-wrapped", "closed-pipe", "epipe", "eof"} {
					dw := NewDrv(op, doc)
					dw.WriterFailAt, dw.ErrFlavour = 1, fl
					nm := fmt.Sprintf("c14/doc%d/%s/writer@1/%s", di, op, fl)
					out = append(out, &Scenario{Name: nm, Prop: "C14", Workers: w2, Bound: k, Policies: pols,
						New: func() Exec { return &c14Exec{DrvRun: dw.New(), full: full, name: nm} }})
					dr := NewDrv(op, doc)
					dr.ReaderFailAfter, dr.ErrFlavour = len(doc)/2+1, fl
					pdoc := doc[:len(doc)/2+1]
					if i := strings.LastIndexByte(pdoc, '\n'); i >= 0 {
						pdoc = pdoc[:i+1] // the complete lines delivered before the failure
					} else {
						pdoc = ""
					}
					pd := NewDrv(op, pdoc)
					pd.Simple, pd.NoYield = true, true
					pr := pd.New()
					func() {
						defer func() { recover() }()
						pr.Body()
					}()
					pr.Finish()
					rej := pr.Err != nil
					nr := fmt.Sprintf("c14/doc%d/%s/reader@mid/%s", di, op, fl)
					out = append(out, &Scenario{Name: nr, Prop: "C14", Workers: w2, Bound: k, Policies: pols,
						New: func() Exec { return &c14Exec{DrvRun: dr.New(), full: full, prefixRejected: rej, name: nr} }})
				}
				if op == "out-yaml" {
					continue
				}
				for i := 0; i < len(doc); i++ {
					if tier == "quick" && op != "out-text" && i%3 != 0 {
						continue
					}
					d := NewDrv(op, doc)
					d.ReaderFailAfter = i
					// are the complete lines delivered before the failure themselves rejected by a healthy simple-mode run?
					cl := doc[:i]
					if k := strings.LastIndexByte(cl, '\n'); k >= 0 {
						cl = cl[:k+1]
					} else {
						cl = ""
					}
					pd := NewDrv(op, cl)
					pd.Simple, pd.NoYield = true, true
					pr := pd.New()
					func() {
						defer func() { recover() }()
						pr.Body()
					}()
					pr.Finish()
					rejected := pr.Err != nil
					name := fmt.Sprintf("c14/doc%d/%s/reader@%d", di, op, i)
					out = append(out, &Scenario{Name: name, Prop: "C14", Workers: w2, Bound: k, Policies: pols,
						New: func() Exec { return &c14Exec{DrvRun: d.New(), full: full, prefixRejected: rejected, name: name} }})
				}
			}
		}
		// the reader fails INSIDE a long line (longer than the usual 4096-byte read buffers, within the 64 KiB limit of a
		// line), at offsets before, at and after every buffer boundary of the line; base schedules only
		for _, ln := range []int{5000, 10000, 40000} {
			doc := "- a\n  - " + strings.Repeat("x", ln) + "\n  - b\n- c\n"
			for _, op := range []string{"out-text", "out-json"} {
				start := len("- a\n  - ")
				var offs []int
				for o := 4096; o < ln; o += 4096 {
					offs = append(offs, start+o-1-start, start+o-start, o, o+1, o+start)
				}
				offs = append(offs, 10, start+100, start+ln/2, start+ln-1, start+ln, start+ln+1)
				seen := map[int]bool{}
				for _, i := range offs {
					if i <= 0 || i >= len(doc) || seen[i] {
						continue
					}
					seen[i] = true
					if tier == "quick" && ln == 40000 && len(seen)%3 != 0 {
						continue
					}
					d := NewDrv(op, doc)
					d.ReaderFailAfter = i
					name := fmt.Sprintf("c14/longline%d/%s/reader@%d", ln, op, i)
					// (the complete lines delivered before any of these offsets are "- a" at most: acceptable)
					out = append(out, &Scenario{Name: name, Prop: "C14", Workers: w2, Bound: 0, Policies: pols,
						New: func() Exec { return &c14Exec{DrvRun: d.New(), name: name} }})
				}
			}
		}
		// the LAST write of the run fails (plain and transient), explored one bound deeper: by then other workers are
		// leaving, channels are being closed and contexts cancelled - the failure must still come back
		for di, doc := range []string{"- a\n- c\n"} {
			for _, op := range []string{"out-text", "out-dry"} {
				ref := NewDrv(op, doc)
				ref.Simple, ref.NoYield = true, true
				rr := ref.New()
				rr.Body()
				rr.Finish()
				if rr.Err != nil {
					continue
				}
				full, writes := rr.Out, rr.W.writes
				for _, variant := range []string{"plain"} {
					d := NewDrv(op, doc)
					d.WriterFailAt, d.WriterOnce = writes, variant == "transient"
					name := fmt.Sprintf("c14/lastwrite/doc%d/%s/%s", di, op, variant)
					out = append(out, &Scenario{Name: name, Prop: "C14", Workers: w2, Bound: k + 1, Policies: []int{0},
						New: func() Exec { return &c14Exec{DrvRun: d.New(), full: full, name: name} }})
				}
			}
		}
		// From-Root with the massive option: a lone root, a root with one child and a deeper tree; the writer fails at
		// every write of the fault-free run (plain, short, transient)
		for ti, tree := range []string{"r", "r\n  a", "r\n  a\n    b\n  c"} {
			for _, op := range []string{"root:out-text", "root:out-json", "root:out-yaml"} {
				mkd := func() *Drv {
					d := NewDrv(op, "")
					d.Root = rootOfIndented(tree)
					return d
				}
				ref := mkd()
				ref.Simple, ref.NoYield = true, true
				rr := ref.New()
				rr.Body()
				rr.Finish()
				if rr.Err != nil {
					continue
				}
				full, writes := rr.Out, rr.W.writes
				for j := 1; j <= writes && j <= 4; j++ {
					for _, variant := range []string{"plain", "short", "transient"} {
						d := mkd()
						d.WriterFailAt, d.WriterShort, d.WriterOnce = j, variant == "short", variant == "transient"
						name := fmt.Sprintf("c14/fromroot%d/%s/writer@%d/%s", ti, op, j, variant)
						out = append(out, &Scenario{Name: name, Prop: "C14", Workers: w2, Bound: k, Policies: pols,
							New: func() Exec { return &c14Exec{DrvRun: d.New(), full: full, name: name} }})
					}
				}
			}
		}
		return out
	}
}

// rootOfIndented builds a model tree from lines "name", "  child", "    grandchild" (two blanks per level).
func rootOfIndented(s string) *model.Node {
	var root *model.Node
	var stack []*model.Node
	for _, l := range strings.Split(s, "\n") {
		lv := (len(l) - len(strings.TrimLeft(l, " "))) / 2
		n := &model.Node{Name: strings.TrimSpace(l)}
		if lv == 0 {
			root = n
		} else {
			stack[lv-1].Kids = append(stack[lv-1].Kids, n)
		}
		stack = append(stack[:lv], n)
	}
	return root
}
