//go:build mcbuild

package main

import (
	"fmt"
	"strings"

	"github.com/ddddddO/gtree"
	"github.com/ddddddO/gtree/verifmc/mos"

	"verifharness/enum"
	"verifharness/fsx"
	"verifharness/model"
	"verifharness/rep"
	"verifharness/sut"
)

// C06 fault enumeration: every single file-system call of a Mkdir fails in turn (EIO through the mos seam);
// a failing file-system operation must be returned as an error, never reported as success.
func init() {
	freeParts["C06/fsfault"] = func(c *rep.Ctx) {
		maxN := 4
		if c.Thorough() {
			maxN = 5
		}
		names := []string{"a", "b.go", "d"}
		exts := [][]string{nil, {".go"}}
		c.Bound("fault_nodes", fmt.Sprint(maxN))
		for n := 1; n <= maxN; n++ {
			enum.DepthSeqs(n, func(d0 []int) {
				d := append([]int{}, d0...)
				enum.Tuples(n, len(names), func(t []int) {
					nm := enum.Pick(names, t)
					f := enum.Build(d, nm)
					seen := map[string]bool{}
					for _, r := range f {
						if seen[r.Name] {
							return
						}
						seen[r.Name] = true
					}
					if !c.Take() || c.Expired() {
						return
					}
					doc := enum.Spell(d, nm, enum.Canonical)
					c.StateN(1)
					for _, ex := range exts {
						for _, route := range []string{"md", "root"} {
							if route == "root" && len(f) != 1 {
								continue
							}
							kind := struct {
								errno   string
								persist bool
							}{}
							run := func(failAt int) (err error, calls int, pan string, snap fsx.Snap) {
								j := fsx.NewJail("c06f")
								defer j.Remove()
								mos.ResetKind(failAt, kind.errno, kind.persist)
								if failAt > 0 {
									mos.Budget = 2000 // (a fault-free Mkdir of these trees makes at most a few dozen calls)
								}
								opts := []gtree.Option{gtree.WithTargetDir(j.Target), gtree.WithFileExtensions(ex)}
								pan = sut.Guard(func() {
									if route == "root" {
										err = gtree.MkdirFromRoot(sut.BuildRoot(f[0]), opts...)
									} else {
										err = gtree.MkdirFromMarkdown(strings.NewReader(doc), opts...)
									}
								})
								calls = mos.Calls
								snap = fsx.Snapshot(j.Target)
								mos.Reset(0)
								return
							}
							err0, n0, pan0, _ := run(0)
							c.Eval()
							if err0 != nil || pan0 != "" {
								c.Violation("C06|fault-free-run-failed", fmt.Sprintf("doc=%q exts=%v route=%s: err=%v panic=%q", doc, ex, route, err0, pan0), len(doc), nil)
								continue
							}
							c.Trace()
							for jx := 1; jx <= n0; jx++ {
								err, _, pan, snap := run(jx)
								c.Eval()
								c.Trans(1)
								c.Nontrivial()
								if pan != "" {
									c.Violation("C06|panic-under-fs-fault", fmt.Sprintf("doc=%q exts=%v route=%s failing call %d/%d: %s", doc, ex, route, jx, n0, pan), len(doc)+jx, nil)
								} else if err == nil {
									c.Violation("C06|fs-fault-reported-as-success", fmt.Sprintf("doc=%q exts=%v route=%s: file-system call %d of %d failed with EIO but Mkdir returned nil (fs now %v, plan %v)", doc, ex, route, jx, n0, snap, model.Plan(model.Merge(f), ex)), len(doc)+jx, nil)
								}
							}
							// other kinds of failure: what the call reports, and a resource that stays exhausted (every call from
							// the k-th on fails). The operation ends, and when it returns nil the directory holds the whole tree
							// (a retry that succeeded is fine; "exists" reported for something that is not the directory wanted,
							// or giving up quietly, is not)
							plan := model.Plan(model.Merge(f), ex)
							for _, k := range []struct {
								errno   string
								persist bool
							}{{"EEXIST", false}, {"EMFILE", false}, {"EMFILE", true}, {"ENOSPC", true}, {"EACCES", false}, {"EINTR", false}, {"EIO", true}} {
								kind = k
								for jx := 1; jx <= n0; jx++ {
									err, _, pan, snap := run(jx)
									c.Eval()
									c.Trans(1)
									desc := fmt.Sprintf("doc=%q exts=%v route=%s: file-system call %d of %d fails with %s (from then on: %v)", doc, ex, route, jx, n0, k.errno, k.persist)
									switch {
									case strings.Contains(pan, "keeps retrying"):
										c.Violation("C06|fs-fault-retried-forever|"+k.errno, desc+": "+pan, len(doc)+jx, nil)
									case pan != "":
										c.Violation("C06|panic-under-fs-fault", desc+": "+pan, len(doc)+jx, nil)
									case err == nil:
										complete := true
										kinds := snap.Kinds()
										for p, want := range plan {
											if kinds[p] != want {
												complete = false
											}
										}
										if !complete {
											c.Violation("C06|fs-fault-reported-as-success|"+k.errno, fmt.Sprintf("%s but Mkdir returned nil and the tree is incomplete (fs now %v, plan %v)", desc, snap, plan), len(doc)+jx, nil)
										}
									}
								}
							}
							kind.errno, kind.persist = "", false
							if c.R.States%40 == 1 {
								c.Sample(map[string]any{"doc": doc, "exts": ex, "route": route, "fs_calls_fault_free": n0})
							}
						}
					}
				})
			})
		}
	}
}
