//go:build mcbuild

package main

import (
	"fmt"
	"strings"

	"github.com/ddddddO/gtree"
	"github.com/ddddddO/gtree/verifmc/mos"

	"verifharness/enum"
	"verifharness/fsx"
	"verifharness/model"
	"verifharness/rep"
	"verifharness/sut"
)

// C06 fault enumeration: every single file-system call of a Mkdir fails in turn (EIO through the mos seam);
// a failing file-system operation must be returned as an error, never reported as success.
func init() {
	freeParts["C06/fsfault"] = func(c *rep.Ctx) {
		maxN := 4
		if c.Thorough() {
			maxN = 5
		}
		names := []string{"a", "b.go", "d"}
		exts := [][]string{nil, {".go"}}
		c.Bound("fault_nodes", fmt.Sprint(maxN))
		for n := 1; n <= maxN; n++ {
			enum.DepthSeqs(n, func(d0 []int) {
				d := append([]int{}, d0...)
				enum.Tuples(n, len(names), func(t []int) {
					nm := enum.Pick(names, t)
					f := enum.Build(d, nm)
					seen := map[string]bool{}
					for _, r := range f {
						if seen[r.Name] {
							return
						}
						seen[r.Name] = true
					}
					if !c.Take() || c.Expired() {
						return
					}
					doc := enum.Spell(d, nm, enum.Canonical)
					c.StateN(1)
					for _, ex := range exts {
						for _, route := range []string{"md", "root"} {
							if route == "root" && len(f) != 1 {
								continue
							}
							run := func(failAt int) (err error, calls int, pan string, snap fsx.Snap) {
								j := fsx.NewJail("c06f")
								defer j.Remove()
								mos.Reset(failAt)
								opts := []gtree.Option{gtree.WithTargetDir(j.Target), gtree.WithFileExtensions(ex)}
								pan = sut.Guard(func() {
									if route == "root" {
										err = gtree.MkdirFromRoot(sut.BuildRoot(f[0]), opts...)
									} else {
										err = gtree.MkdirFromMarkdown(strings.NewReader(doc), opts...)
									}
								})
								calls = mos.Calls
								snap = fsx.Snapshot(j.Target)
								mos.Reset(0)
								return
							}
							err0, n0, pan0, _ := run(0)
							c.Eval()
							if err0 != nil || pan0 != "" {
								c.Violation("C06|fault-free-run-failed", fmt.Sprintf("doc=%q exts=%v route=%s: err=%v panic=%q", doc, ex, route, err0, pan0), len(doc), nil)
								continue
							}
							c.Trace()
							for jx := 1; jx <= n0; jx++ {
								err, _, pan, snap := run(jx)
								c.Eval()
								c.Trans(1)
								c.Nontrivial()
								if pan != "" {
									c.Violation("C06|panic-under-fs-fault", fmt.Sprintf("doc=%q exts=%v route=%s failing call %d/%d: %s", doc, ex, route, jx, n0, pan), len(doc)+jx, nil)
								} else if err == nil {
									c.Violation("C06|fs-fault-reported-as-success", fmt.Sprintf("doc=%q exts=%v route=%s: file-system call %d of %d failed with EIO but Mkdir returned nil (fs now %v, plan %v)", doc, ex, route, jx, n0, snap, model.Plan(model.Merge(f), ex)), len(doc)+jx, nil)
								}
							}
							if c.R.States%40 == 1 {
								c.Sample(map[string]any{"doc": doc, "exts": ex, "route": route, "fs_calls_fault_free": n0})
							}
						}
					}
				})
			})
		}
	}
}
