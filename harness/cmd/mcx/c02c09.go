//go:build mcbuild

package main

import (
	"fmt"
	"github.com/ddddddO/gtree"
	mos "github.com/ddddddO/gtree/verifmc/mos"
	"os"
	"path/filepath"
	"sort"
	"strings"
	"verifharness/fsx"

	mc "github.com/ddddddO/gtree/verifmc"

	"verifharness/model"
)

// ---- C02 (massive mode): rendered completely or rejected, judged against the specification parser
// (not differentially): error iff the document is malformed; accepted documents lose no item.

type c02Exec struct {
	*DrvRun
	sp   model.Spec
	name string
}

func (e *c02Exec) Outcome() string { return fmt.Sprintf("err=%v out=%s", e.Err != nil, short(e.Out)) }

func sortedLinesOf(s string) string {
	l := strings.Split(s, "\n")
	sort.Strings(l)
	return strings.Join(l, "\n")
}

func (e *c02Exec) Check(o *mc.Outcome) []Viol {
	e.Finish()
	if !e.Returned && o.End() == "hang" {
		// every thread is blocked and the call has not returned: the document is neither rendered nor rejected
		return []Viol{{"C02|neither-rendered-nor-rejected|massive", fmt.Sprintf("driver %s: the call never returns under this schedule (all threads blocked)", e.d)}}
	}
	if !e.Returned || o.End() == "panic" {
		return nil // C11 / C12
	}
	var vs []Viol
	out := e.W.buf.String()
	switch e.sp.Verdict {
	case model.Malformed:
		if e.Err == nil {
			vs = append(vs, Viol{"C02|accepted-malformed|massive|" + e.sp.Class, fmt.Sprintf("driver %s: the document is malformed (%s, line %q) but the massive-mode call returned nil; output %q", e.d, e.sp.Class, e.sp.Line, out)})
		}
	case model.WellFormed:
		if e.Err != nil {
			vs = append(vs, Viol{"C02|rejected-wellformed|massive", fmt.Sprintf("driver %s: %v", e.d, e.Err)})
		} else if e.d.Op == "out-text" {
			want := model.Render(model.Merge(e.sp.Forest), model.DefaultFmt)
			if sortedLinesOf(out) != sortedLinesOf(want) {
				vs = append(vs, Viol{"C02|names-lost|massive", fmt.Sprintf("driver %s: output %q is not the complete tree %q (up to the order of roots)", e.d, out, want)})
			}
		} else if e.d.Op == "walk" {
			var got []string
			for _, r := range e.Rows {
				got = append(got, r.Name)
			}
			sort.Strings(got)
			want := model.Names(model.Merge(e.sp.Forest))
			if strings.Join(got, "\x00") != strings.Join(want, "\x00") {
				vs = append(vs, Viol{"C02|names-lost|massive", fmt.Sprintf("driver %s: visited %q, items %q", e.d, got, want)})
			}
		}
	}
	return vs
}

// ---- C09 (massive mode): the dry-run report under every schedule within the bound

type c09Exec struct {
	*DrvRun
	blocks []string
}

func (e *c09Exec) Outcome() string { return fmt.Sprintf("err=%v out=%s", e.Err != nil, short(e.Out)) }

func (e *c09Exec) Check(o *mc.Outcome) []Viol {
	e.Finish()
	if !e.Returned || o.End() == "panic" {
		return nil
	}
	var vs []Viol
	out := e.W.buf.String()
	if e.Err != nil {
		vs = append(vs, Viol{"C09|massive-dry-run-error|" + e.d.Op, fmt.Sprintf("driver %s: %v", e.d, e.Err)})
	} else if !isPermutationOfBlocks(model.NormSummary(out), e.blocks, "", true) {
		vs = append(vs, Viol{"C09|wrong-report|massive|" + e.d.Op, fmt.Sprintf("driver %s:\n got %q\nwant a permutation of %q", e.d, out, e.blocks)})
	}
	if e.d.needsFS() && (len(e.After) != 0 || e.OutsideChanged != "") {
		vs = append(vs, Viol{"C09|dry-run-changed-fs|massive|" + e.d.Op, fmt.Sprintf("driver %s: %v %s", e.d, keys(e.After), e.OutsideChanged)})
	}
	return vs
}

// ---- C07 (massive mode): confinement and name validation under every schedule within the bound

type c07Exec struct {
	*DrvRun
	invalid bool
}

func (e *c07Exec) Outcome() string { return fmt.Sprintf("err=%v fs=%d", e.Err != nil, len(e.After)) }

func (e *c07Exec) Check(o *mc.Outcome) []Viol {
	e.Finish()
	if !e.Returned || o.End() == "panic" {
		return nil
	}
	var vs []Viol
	if e.OutsideChanged != "" {
		vs = append(vs, Viol{"C07|escaped-target|massive|" + e.d.Op, fmt.Sprintf("driver %s: outside the target: %s (err=%v)", e.d, e.OutsideChanged, e.Err)})
	}
	if e.invalid && e.Err == nil {
		vs = append(vs, Viol{"C07|invalid-name-accepted|massive|" + e.d.Op, fmt.Sprintf("driver %s: a name is not a single valid path element but the call returned nil (target now %v)", e.d, keys(e.After))})
	}
	return vs
}

// c07TwoCalls: a massive Mkdir that fails (its last root is invalid) while one of its workers may still be busy with an
// earlier, valid root, followed at once by a second massive Mkdir into ANOTHER target directory. Whatever the first call
// still creates after it returned, it creates in its own target: the second target holds exactly the second tree, and
// nothing appears anywhere else.
type c07TwoCalls struct {
	jail             *fsx.Jail
	t1, t2           string
	before           fsx.Snap
	err1, err2       error
	doc1, doc2       string
	returned         bool
	allowed1, exact2 map[string]bool
}

func (e *c07TwoCalls) Body() {
	mos.Reset(0)
	e.err1 = gtree.MkdirFromMarkdown(newReader(e.doc1), gtree.WithMassive(nil), gtree.WithTargetDir(e.t1))
	e.err2 = gtree.MkdirFromMarkdown(newReader(e.doc2), gtree.WithMassive(nil), gtree.WithTargetDir(e.t2))
	e.returned = true
}

func (e *c07TwoCalls) Outcome() string {
	return fmt.Sprintf("err1=%v err2=%v", e.err1 != nil, e.err2 != nil)
}

func (e *c07TwoCalls) Check(o *mc.Outcome) []Viol {
	defer e.jail.Remove()
	if !e.returned || o.End() == "panic" {
		return nil
	}
	var vs []Viol
	after := fsx.Snapshot(e.jail.Root)
	for p := range after {
		if _, was := e.before[p]; was {
			continue
		}
		switch {
		case strings.HasPrefix(p, "p/q/target/"):
			if !e.allowed1[strings.TrimPrefix(p, "p/q/target/")] {
				vs = append(vs, Viol{"C07|two-calls|first-target-holds-something-else", fmt.Sprintf("%s appeared in the first call's target (err1=%v err2=%v)", p, e.err1, e.err2)})
			}
		case strings.HasPrefix(p, "p/q/second/"):
			if !e.exact2[strings.TrimPrefix(p, "p/q/second/")] {
				vs = append(vs, Viol{"C07|two-calls|second-target-holds-entries-of-the-first-call", fmt.Sprintf("%s appeared in the second call's target (err1=%v err2=%v)", p, e.err1, e.err2)})
			}
		default:
			vs = append(vs, Viol{"C07|escaped-target|massive|two-calls", fmt.Sprintf("%s appeared outside both targets", p)})
		}
	}
	if e.err1 == nil {
		vs = append(vs, Viol{"C07|invalid-name-accepted|massive|two-calls", "the first call has a root named .. and returned nil"})
	}
	if e.err2 != nil {
		vs = append(vs, Viol{"C07|two-calls|second-call-failed", fmt.Sprintf("the second call (a valid tree, an empty target of its own) returned %v", e.err2)})
	} else {
		for p := range e.exact2 {
			if _, ok := after["p/q/second/"+p]; !ok {
				vs = append(vs, Viol{"C07|two-calls|second-tree-incomplete", fmt.Sprintf("%s is missing from the second call's target", p)})
				break
			}
		}
	}
	return vs
}

func init() {
	scenarioGens["C07"] = func(tier string) []*Scenario {
		k := 1
		if tier == "thorough" {
			k = 2
		}
		hostile := []string{"../../../esc", "a/b", "..", "."}
		var out []*Scenario
		for hi, h := range hostile {
			for pos := 0; pos < 3; pos++ {
				for _, asRoot := range []bool{true, false} {
					doc := ""
					for r := 0; r < 3; r++ {
						switch {
						case r == pos && asRoot:
							doc += "- " + h + "\n  - k\n"
						case r == pos:
							doc += fmt.Sprintf("- r%d\n  - %s\n  - k\n", r, h)
						default:
							doc += fmt.Sprintf("- r%d\n  - k\n    - kk\n", r)
						}
					}
					for _, op := range []string{"mkdir", "mkdir-dry", "out-dry"} {
						if (hi > 1 || !asRoot) && op != "mkdir" {
							continue
						}
						d := NewDrv(op, doc)
						name := fmt.Sprintf("c07/h%d/pos%d/root=%v/%s", hi, pos, asRoot, op)
						out = append(out, &Scenario{Name: name, Prop: "C07", Workers: w2, Bound: k, Policies: []int{0, 1, 2},
							New: func() Exec { return &c07Exec{DrvRun: d.New(), invalid: true} }})
					}
				}
			}
		}
		// two calls in a row (see c07TwoCalls)
		for wi, w := range []map[string]int{w1, w2} {
			name := fmt.Sprintf("c07/two-calls/w%d", wi+1)
			out = append(out, &Scenario{Name: name, Prop: "C07", Workers: w, Bound: k, Policies: []int{0, 1, 2},
				New: func() Exec {
					j := fsx.NewJail("c07two")
					t2 := filepath.Join(j.Root, "p", "q", "second")
					os.MkdirAll(t2, 0o755)
					e := &c07TwoCalls{jail: j, t1: j.Target, t2: t2,
						doc1:     "- big\n  - c1\n  - c2\n  - c3\n    - d\n  - c4\n- ..\n",
						doc2:     "- other\n  - x\n",
						allowed1: map[string]bool{"big": true, "big/c1": true, "big/c2": true, "big/c3": true, "big/c3/d": true, "big/c4": true},
						exact2:   map[string]bool{"other": true, "other/x": true}}
					e.before = fsx.Snapshot(j.Root)
					return e
				}})
		}
		// several roots with a hostile name at once (each would end up outside the target if it were created): whichever
		// worker notices first, none of them is created
		for _, mask := range []int{3, 5, 6, 7} {
			doc := ""
			for r := 0; r < 3; r++ {
				if mask&(1<<r) != 0 {
					doc += fmt.Sprintf("- r%d\n  - a\n    - ../../../../esc%d\n", r, r)
				} else {
					doc += fmt.Sprintf("- r%d\n  - k\n", r)
				}
			}
			for wi, w := range []map[string]int{w2, w3} {
				d := NewDrv("mkdir", doc)
				name := fmt.Sprintf("c07/several-hostile/mask%d/w%d", mask, wi+2)
				out = append(out, &Scenario{Name: name, Prop: "C07", Workers: w, Bound: k, Policies: []int{0, 1, 2},
					New: func() Exec { return &c07Exec{DrvRun: d.New(), invalid: true} }})
			}
		}
		// a wide node (more children than typical fan-out thresholds) with one hostile child at an early, a middle
		// and the last position; one worker per stage
		for _, pos := range []int{5, 20, 33} {
			doc := "- r\n"
			for i := 0; i < 34; i++ {
				if i == pos {
					doc += "  - ../../../esc\n"
				} else {
					doc += fmt.Sprintf("  - c%02d\n", i)
				}
			}
			doc += "- second\n  - k\n"
			dw := NewDrv("mkdir", doc)
			name := fmt.Sprintf("c07/wide34/pos%d/mkdir", pos)
			out = append(out, &Scenario{Name: name, Prop: "C07", Workers: map[string]int{"*": 1}, Bound: k, Policies: []int{0, 1, 2},
				New: func() Exec { return &c07Exec{DrvRun: dw.New(), invalid: true} }})
		}
		// a valid forest: nothing outside the target, no error
		d := NewDrv("mkdir", "- a\n  - b\n- c\n  - d\n")
		out = append(out, &Scenario{Name: "c07/valid/mkdir", Prop: "C07", Workers: w2, Bound: k, Policies: []int{0, 1, 2},
			New: func() Exec { return &c07Exec{DrvRun: d.New()} }})
		return out
	}
	scenarioGens["C02"] = func(tier string) []*Scenario {
		k := 1
		pols := []int{0, 1, 2}
		if tier == "thorough" {
			k = 2
		}
		docs := []string{
			"- a\n  - b\n- c\n  - d\n", "- a\n  - b\n    - c\n- d\n- e\n  - f\n",
			"- a\n  -\n- c\n  - d\n", "- a\n  - b\n- c\n   x\n", "- a\n  - b\n    - c\n- d\n      - e\n", "- a\n  - b\n    - c\n      - d\n- e\n  - f\n- g\n        - h\n",
			"* a\n  + b\n+ c\n  * d\n+ e\n", "+ a\n+ b\n  + c\n+ d\n", "* a\n  - b\n* c\n",
			"- a\n  - b\n- c\n   - d\n", "- a\n  - b\n- c\n \t- d\n", "- a\n  - b\n- c\n  - d\n\t- e\n",
			// more malformed root blocks than there are workers of a stage, and a block after them
			"- a\n  -\n- b\n  x\n- c\n", "- a\n  -\n- b\n   - y\n- c\n    - z\n- d\n  - e\n", "- a\n  x\n- b\n  x\n- c\n  x\n- d\n- e\n",
		}
		var out []*Scenario
		for di, doc := range docs {
			sp := model.ParseSpec(doc)
			if sp.Verdict == model.OutOfDomain {
				continue
			}
			for _, op := range []string{"out-text", "walk"} {
				for wn, w := range map[string]map[string]int{"w2": w2, "w1": {"*": 1}} {
					d := NewDrv(op, doc)
					name := fmt.Sprintf("c02/doc%d/%s/%s", di, op, wn)
					out = append(out, &Scenario{Name: name, Prop: "C02", Workers: w, Bound: k, Policies: pols,
						New: func() Exec { return &c02Exec{DrvRun: d.New(), sp: sp, name: name} }})
				}
			}
		}
		sort.Slice(out, func(i, j int) bool { return out[i].Name < out[j].Name })
		return out
	}
	scenarioGens["C09"] = func(tier string) []*Scenario {
		k := 1
		pols := []int{0, 1, 2}
		if tier == "thorough" {
			k = 2
		}
		type dd struct {
			doc  string
			exts []string
		}
		docs := []dd{
			{"- a\n  - b.go\n  - c\n- d\n  - e.go\n    - f\n", []string{".go"}},
			{"- 100%d\n  - a%%b\n  - %s\n- {}\n  - %v%!\n", []string{"b"}},
			{"- a\n- b\n- c\n", nil},
		}
		{
			// per-root reports larger than an I/O buffer (4096 bytes)
			big := ""
			for r := 0; r < 2; r++ {
				big += fmt.Sprintf("- big%d\n", r)
				for i := 0; i < 48; i++ {
					big += fmt.Sprintf("  - c%d-%03d-%s.go\n", r, i, strings.Repeat("x", 80))
				}
			}
			docs = append(docs, dd{big, []string{".go"}})
		}
		var out []*Scenario
		for di, x := range docs {
			sp := model.ParseSpec(x.doc)
			var blocks []string
			for _, r := range model.Merge(sp.Forest) {
				d, f := model.Counts(r, x.exts)
				blocks = append(blocks, model.NormSummary(model.RenderRoot(r, model.DefaultFmt)+fmt.Sprintf("\n%d directories, %d files\n", d, f)))
			}
			for _, op := range []string{"out-dry", "mkdir-dry"} {
				d := NewDrv(op, x.doc)
				d.Exts = x.exts
				name := fmt.Sprintf("c09/doc%d/%s", di, op)
				bl := blocks
				out = append(out, &Scenario{Name: name, Prop: "C09", Workers: w2, Bound: k, Policies: pols,
					New: func() Exec { return &c09Exec{DrvRun: d.New(), blocks: bl} }})
			}
			// From-Root: the first root alone
			m := model.Merge(sp.Forest)[0]
			d := NewDrv("root:mkdir-dry", "")
			d.Root, d.Exts = sp.Forest[0], x.exts
			name := fmt.Sprintf("c09/doc%d/root:mkdir-dry", di)
			dn, fn := model.Counts(m, x.exts)
			bl := []string{model.NormSummary(model.RenderRoot(m, model.DefaultFmt) + fmt.Sprintf("\n%d directories, %d files\n", dn, fn))}
			out = append(out, &Scenario{Name: name, Prop: "C09", Workers: w2, Bound: k, Policies: pols,
				New: func() Exec { return &c09Exec{DrvRun: d.New(), blocks: bl} }})
		}
		return out
	}
}
