//go:build mcbuild

package main

import (
	"fmt"
	"strings"

	mc "github.com/ddddddO/gtree/verifmc"

	"verifharness/enum"
	"verifharness/rep"
)

// ---- C12 (massive mode): no byte string crashes or hangs a massive-mode call. Every string up to length 4
// over the 10-byte alphabet runs under the controlled scheduler (three base schedules; every single deviation
// for strings up to length 3): a panic in ANY thread, a hang, a leak or a livelock is captured.

type c12Exec struct {
	*DrvRun
}

func (e *c12Exec) Outcome() string { return fmt.Sprintf("err=%v", e.Err != nil) }

func (e *c12Exec) Check(o *mc.Outcome) []Viol {
	e.Finish()
	vs := endViolations("C12", o)
	// Go's runtime aborts the whole process ("fatal error: concurrent map writes") when it notices unsynchronised
	// map access: an unordered pair of accesses to one map object is a crash waiting for the right schedule
	for k := range o.Races {
		if strings.Contains(k, "@map:") {
			vs = append(vs, Viol{"C12|concurrent-map-access|" + k, "unsynchronised access to one map from two goroutines (the runtime kills the process when it notices): " + k + " input " + fmt.Sprintf("%q", e.d.Doc)})
		}
	}
	if o.End() == "complete" && strings.TrimSpace(e.d.Doc) == "" && (e.Err != nil || e.W.buf.Len() > 0 || len(e.Rows) > 0) {
		vs = append(vs, Viol{"C12|blank-input-not-empty-nil|massive|" + e.d.Op, fmt.Sprintf("input %q: out=%q err=%v", e.d.Doc, e.W.buf.String(), e.Err)})
	}
	return vs
}

func c12Scenario(op, in string, bound int) *Scenario {
	d := NewDrv(op, in)
	if op == "verify" {
		d.Pre = map[string]byte{"a/b": 'd', "a/x": 'd'} // the roots the block alphabet uses exist: verification walks them
	}
	if op == "mkdir" || op == "out-dry" {
		d.Exts = []string{"b", ".go"} // childless nodes named b / *.go are files (a childless root included)
	}
	return &Scenario{Name: fmt.Sprintf("c12/%s/%q", op, in), Prop: "C12", Workers: w2, Bound: bound,
		New: func() Exec { return &c12Exec{DrvRun: d.New()} }}
}

func init() {
	freeParts["C12/mc"] = func(c *rep.Ctx) {
		alphabet := []byte{'-', ' ', '\t', '\n', 'a', '#', '*', '+', '\r', 0xff}
		maxL, devL := 4, 2
		if c.Thorough() {
			maxL, devL = 5, 3
		}
		c.Bound("massive_max_len", fmt.Sprint(maxL))
		c.Bound("massive_one_deviation_up_to_len", fmt.Sprint(devL))
		e := &explorer{c: c, states: map[uint64]struct{}{}, outcomes: map[string]int64{}, noShard: true}
		ops := []string{"out-text", "walk", "out-json", "out-dry"}
		for L := 0; L <= maxL && !c.Expired(); L++ {
			enum.Tuples(L, len(alphabet), func(t []int) {
				if !c.Take() || c.Expired() {
					return
				}
				b := make([]byte, L)
				for i, x := range t {
					b[i] = alphabet[x]
				}
				in := string(b)
				for oi, op := range ops {
					if L == maxL && oi >= 1 {
						continue
					}
					bound := 0
					if L <= devL {
						bound = 1
					}
					sc := c12Scenario(op, in, bound)
					pols := []int{0, 1, 2}
					if L == maxL {
						pols = pols[:1]
					}
					for _, pol := range pols {
						e.explore(sc, pol)
					}
				}
			})
		}
		// the white space Unicode knows beyond blank, tab, CR and LF, as tokens next to the structural bytes
		tokens := []string{"-", " ", "\n", "a", "\v", "\f", "\u00a0", "\u0085", "\u3000"}
		maxT := 3
		if c.Thorough() {
			maxT = 4
		}
		c.Bound("massive_whitespace_tokens_up_to", fmt.Sprint(maxT))
		for L := 1; L <= maxT && !c.Expired(); L++ {
			enum.Tuples(L, len(tokens), func(t []int) {
				exotic := false
				in := ""
				for _, x := range t {
					exotic = exotic || x >= 4
					in += tokens[x]
				}
				if !exotic || !c.Take() || c.Expired() {
					return
				}
				c.Inc("unicode_whitespace_inputs")
				for _, op := range []string{"out-text", "out-json", "walk"} {
					e.explore(c12Scenario(op, in, 0), 0)
				}
			})
		}
		// grammar-aware family: every sequence of up to 4 root blocks over a block alphabet that contains each way a
		// block can fail (so that all workers of a stage can be lost while blocks are still coming), 2 workers per stage
		blocks := []string{"- a\n  - b\n", "- a\n  -\n", "- a\n      - b\n", "- a/b\n", "# h\n", "\n", "  - x\n", "- a\n\t- b\n", "- r.go\n", " \v\u00a0\n"}
		maxB := 4
		if c.Thorough() {
			maxB = 5
		}
		c.Bound("massive_block_sequences_up_to", fmt.Sprint(maxB))
		for L := 2; L <= maxB && !c.Expired(); L++ {
			enum.Tuples(L, len(blocks), func(t []int) {
				if !c.Take() || c.Expired() {
					return
				}
				doc := ""
				for _, x := range t {
					doc += blocks[x]
				}
				c.Inc("block_sequence_docs")
				for oi, op := range []string{"out-text", "walk", "verify", "out-dry", "mkdir"} {
					sc := c12Scenario(op, doc, 0)
					pols := []int{0, 1, 2}
					if (oi >= 3 && !(op == "mkdir" && L <= 3)) || (L == maxB && oi >= 1) {
						pols = pols[:1] // (mkdir keeps all base schedules on the shorter sequences: its workers share state)
					}
					for _, pol := range pols {
						e.explore(sc, pol)
					}
				}
			})
		}
		c.R.States = int64(len(e.states))
		c.R.Nontrivial = int64(len(e.outcomes))
		c.Sample(map[string]any{"example_input": "\n- a\n", "ops": ops, "policies": 3})
	}
	// replay support: the scenario is reconstructed from its name "c12/<op>/<quoted input>"
	scenarioByName["c12/"] = func(name string) *Scenario {
		rest := strings.TrimPrefix(name, "c12/")
		i := strings.Index(rest, "/")
		var in string
		fmt.Sscanf(rest[i+1:], "%q", &in)
		return c12Scenario(rest[:i], in, 1)
	}
	_ = mc.Yield
}
