//go:build mcbuild

package main

import (
	"bytes"
	"fmt"
	"runtime"
	"sort"
	"strings"

	"github.com/ddddddO/gtree"
	mc "github.com/ddddddO/gtree/verifmc"
	"github.com/ddddddO/gtree/verifmc/mctx"
	"github.com/ddddddO/gtree/verifmc/mos"
	"github.com/fatih/color"

	"verifharness/fsx"
	"verifharness/model"
	"verifharness/sut"
)

func init() { color.NoColor = true }

// Drv closes the system around one massive-capable operation.
type Drv struct {
	Op   string // out-text out-json out-yaml out-toml out-dry mkdir mkdir-dry verify walk ; prefix "root:" = From-Root family
	Doc  string
	Root *model.Node
	Exts []string
	Fmt  *model.Fmt4

	ReaderFailAfter int // -1 none
	ReaderCancelAt  int // -1 none
	CbGoexitAt      int // > 0: the callback ends its goroutine (runtime.Goexit, what t.FailNow / t.Fatal do) at that call
	ReaderBlockAt   int // > 0: the reader delivers that many bytes, then blocks until the call has returned
	WriterFailAt    int
	WriterShort     bool
	WriterOnce      bool
	NilCtx          bool   // WithMassive(nil): documented to mean context.Background()
	ExtraOpts       string // comma-separated extra options applied in this order: json yaml dry exts fmt noiter nil
	ErrFlavour      string // "" | canceled-wrapped | deadline-wrapped: what the injected reader/writer error wraps
	CbFailAt        int
	Canceller       bool
	PreCancel       bool
	FSFailAt        int
	FSErrno         string          // what the failing file-system call reports ("" = EIO)
	FSPersist       bool            // every file-system call from FSFailAt on fails
	Pre             map[string]byte // entries pre-existing in the target directory
	Strict          bool
	Simple          bool // run without the massive option (reference)
	NoYield         bool
}

func (d *Drv) String() string {
	s := d.Op
	if d.Doc != "" {
		s += fmt.Sprintf(" doc=%q", d.Doc)
	}
	if d.Root != nil {
		s += " root=" + model.Key(model.Forest{d.Root})
	}
	if len(d.Exts) > 0 {
		s += fmt.Sprintf(" exts=%v", d.Exts)
	}
	if d.ReaderFailAfter >= 0 {
		s += fmt.Sprintf(" readerFailAfter=%d", d.ReaderFailAfter)
	}
	if d.ReaderBlockAt > 0 {
		s += fmt.Sprintf(" readerBlocksAfter=%d", d.ReaderBlockAt)
	}
	if d.ReaderCancelAt >= 0 {
		s += fmt.Sprintf(" readerCancelAt=%d", d.ReaderCancelAt)
	}
	if d.WriterFailAt > 0 {
		s += fmt.Sprintf(" writerFailAt=%d short=%v transient=%v", d.WriterFailAt, d.WriterShort, d.WriterOnce)
	}
	if d.CbFailAt > 0 {
		s += fmt.Sprintf(" cbFailAt=%d", d.CbFailAt)
	}
	if d.ErrFlavour != "" {
		s += " errorFlavour=" + d.ErrFlavour
	}
	if d.ExtraOpts != "" {
		s += " options=" + d.ExtraOpts
	}
	if d.Canceller {
		s += " canceller"
	}
	if d.PreCancel {
		s += " precancelled"
	}
	if d.FSFailAt > 0 {
		s += fmt.Sprintf(" fsFailAt=%d", d.FSFailAt)
		if d.FSErrno != "" || d.FSPersist {
			s += fmt.Sprintf("(%s persist=%v)", d.FSErrno, d.FSPersist)
		}
	}
	if len(d.Pre) > 0 {
		s += fmt.Sprintf(" pre=%v", d.Pre)
	}
	if d.Strict {
		s += " strict"
	}
	return s
}

func NewDrv(op, doc string) *Drv {
	return &Drv{Op: op, Doc: doc, ReaderFailAfter: -1, ReaderCancelAt: -1}
}

type cbRow struct {
	Tid int
	sut.WalkRow
}

// DrvRun is one execution of a driver.
type DrvRun struct {
	d        *Drv
	Out      string
	Err      error
	Returned bool
	// CancelSeen: the context was cancelled (by the harness) strictly before the call returned
	CancelSeen     bool
	Rows           []cbRow
	W              *mcWriter
	jail           *fsx.Jail
	before         fsx.Snap
	After          fsx.Snap
	OutsideChanged string
	cancelDone     bool
	// ErrTextAtReturn / ErrChanged: the text of the returned error when the call came back (read inside the run, so the
	// race monitor sees the reads), and a description if it reads differently at quiescence
	ErrTextAtReturn string
	ErrChanged      string
	errChecked      bool
	// TreeChanged: the caller's tree (From-Root drivers) renders differently after the call than before it
	TreeChanged string
	// ActionsAfterCancel: writes and callbacks that began after the cancellation was complete
	ActionsAfterCancel int
	FSCalls            int
}

func (d *Drv) New() *DrvRun {
	r := &DrvRun{d: d}
	if d.needsFS() {
		r.jail = fsx.NewJail("mc")
		if len(d.Pre) > 0 {
			fsx.Populate(r.jail.Target, d.Pre)
		}
		r.before = fsx.Snapshot(r.jail.Root)
	}
	return r
}

func (d *Drv) needsFS() bool {
	op := strings.TrimPrefix(d.Op, "root:")
	return op == "mkdir" || op == "verify" || op == "mkdir-dry"
}

// Finish snapshots and removes the jail (called from Check).
func (r *DrvRun) Finish() {
	if r.Err != nil && !r.errChecked {
		// the error the call returned is the caller's from then on: at quiescence it still says what it said at return
		r.errChecked = true
		func() {
			defer func() { recover() }()
			if now := r.Err.Error(); now != r.ErrTextAtReturn {
				r.ErrChanged = fmt.Sprintf("at return: %q, after the call's goroutines have finished: %q", r.ErrTextAtReturn, now)
			}
		}()
	}
	if r.jail != nil {
		all := fsx.Snapshot(r.jail.Root)
		r.After = all.Under("p/q/target")
		if diff := fsx.Diff(r.before.Outside("p/q/target"), all.Outside("p/q/target")); diff != "" {
			r.OutsideChanged = diff
		}
		r.jail.Remove()
		r.jail = nil
	}
}

func (r *DrvRun) Body() {
	d := r.d
	var ctx mctx.Context = mctx.Background()
	var cancel func()
	if d.Canceller || d.PreCancel || d.ReaderCancelAt >= 0 {
		c, cf := mctx.WithCancel(mctx.Background())
		ctx = c
		cancel = func() { cf(); r.cancelDone = true }
	}
	if d.PreCancel {
		cancel()
	}
	if d.Canceller {
		mc.Go(func() { cancel() })
	}
	w := &mcWriter{failAt: d.WriterFailAt, short: d.WriterShort, noYield: d.NoYield, once: d.WriterOnce}
	w.err = flavoured(d.ErrFlavour, errWriter)
	w.cancelled = &r.cancelDone
	r.W = w
	rd := newReader(d.Doc)
	rd.err = flavoured(d.ErrFlavour, errReader)
	rd.failAfter = d.ReaderFailAfter
	rd.cancelAt = d.ReaderCancelAt
	rd.cancel = cancel
	rd.noYield = d.NoYield
	if d.ReaderBlockAt > 0 && !d.Simple {
		rd.blockAt = d.ReaderBlockAt
		rd.release = mc.NewChan[struct{}](0)
	}
	mos.ResetKind(d.FSFailAt, d.FSErrno, d.FSPersist)

	var opts []gtree.Option
	if !d.Simple {
		if d.NilCtx {
			opts = append(opts, gtree.WithMassive(nil))
		} else {
			opts = append(opts, gtree.WithMassive(ctx))
		}
	}
	if len(d.Exts) > 0 {
		opts = append(opts, gtree.WithFileExtensions(d.Exts))
	}
	if d.Fmt != nil {
		opts = append(opts, sut.FmtOpts(*d.Fmt)...)
	}
	if r.jail != nil {
		opts = append(opts, gtree.WithTargetDir(r.jail.Target))
	}
	if d.Strict {
		opts = append(opts, gtree.WithStrictVerify())
	}
	for _, o := range strings.Split(d.ExtraOpts, ",") {
		switch o {
		case "json":
			opts = append(opts, gtree.WithEncodeJSON())
		case "yaml":
			opts = append(opts, gtree.WithEncodeYAML())
		case "dry":
			opts = append(opts, gtree.WithDryRun())
		case "exts":
			opts = append(opts, gtree.WithFileExtensions([]string{"b", "d"}))
		case "fmt":
			opts = append(opts, gtree.WithBranchFormatIntermedialNode("+-", ":  "), gtree.WithBranchFormatLastNode("`----", ""))
		case "noiter":
			opts = append(opts, gtree.WithNoUseIterOfSimpleOutput())
		case "nil":
			opts = append(opts, nil)
		}
	}
	calls := 0
	cb := func(wn *gtree.WalkerNode) error {
		if !d.NoYield {
			mc.YieldAs("callback")
		}
		calls++
		if r.cancelDone {
			r.ActionsAfterCancel++
		}
		r.Rows = append(r.Rows, cbRow{mc.CurrentThread(), sut.FromWalker(wn)})
		if d.CbFailAt > 0 && calls >= d.CbFailAt {
			return errCallback
		}
		if d.CbGoexitAt > 0 && calls == d.CbGoexitAt {
			runtime.Goexit()
		}
		return nil
	}
	op := d.Op
	fromRoot := strings.HasPrefix(op, "root:")
	op = strings.TrimPrefix(op, "root:")
	var root *gtree.Node
	render := func() string { return "" }
	if fromRoot {
		root = sut.BuildRoot(d.Root)
		// the caller's tree before and after the call, as plain simple-mode JSON (no branches involved)
		render = func() string {
			var b bytes.Buffer
			gtree.OutputFromRoot(&b, root, gtree.WithEncodeJSON())
			return b.String()
		}
	}
	treeBefore := render()
	switch op {
	case "out-json":
		opts = append(opts, gtree.WithEncodeJSON())
	case "out-yaml":
		opts = append(opts, gtree.WithEncodeYAML())
	case "out-toml":
		opts = append(opts, gtree.WithEncodeTOML())
	case "out-dry", "mkdir-dry":
		opts = append(opts, gtree.WithDryRun())
	}
	var err error
	switch {
	case strings.HasPrefix(op, "out-") && !fromRoot:
		err = gtree.OutputFromMarkdown(w, rd, opts...)
	case strings.HasPrefix(op, "out-") && fromRoot:
		err = gtree.OutputFromRoot(w, root, opts...)
	case op == "mkdir" && !fromRoot:
		err = gtree.MkdirFromMarkdown(rd, opts...)
	case op == "mkdir" && fromRoot:
		err = gtree.MkdirFromRoot(root, opts...)
	case op == "mkdir-dry" && !fromRoot:
		old := color.Output
		color.Output = w
		err = gtree.MkdirFromMarkdown(rd, opts...)
		color.Output = old
	case op == "mkdir-dry" && fromRoot:
		old := color.Output
		color.Output = w
		err = gtree.MkdirFromRoot(root, opts...)
		color.Output = old
	case op == "verify" && !fromRoot:
		err = gtree.VerifyFromMarkdown(rd, opts...)
	case op == "verify" && fromRoot:
		err = gtree.VerifyFromRoot(root, opts...)
	case op == "walk" && !fromRoot:
		err = gtree.WalkFromMarkdown(rd, cb, opts...)
	case op == "walk" && fromRoot:
		err = gtree.WalkFromRoot(root, cb, opts...)
	default:
		panic("unknown op " + d.Op)
	}
	if treeBefore != render() {
		r.TreeChanged = fmt.Sprintf("before the call: %safter the call:  %s", treeBefore, render())
	}
	if rd.release != nil {
		rd.release.Close() // the call is back: the producer goes away, whoever still reads sees the end of input
	}
	r.Err = err
	if err != nil {
		r.ErrTextAtReturn = err.Error()
	}
	r.Out = w.buf.String()
	r.Returned = true
	r.CancelSeen = r.cancelDone
	r.ActionsAfterCancel += w.afterCancel
	r.FSCalls = mos.Calls
}

// WalkBlocks groups the callback rows into per-root blocks (rows of one worker from a level-1 row to its next level-1 row).
func (r *DrvRun) WalkBlocks() []string {
	per := map[int][]string{}
	var order []int
	var blocks []string
	cur := map[int]int{}
	for _, row := range r.Rows {
		if _, ok := per[row.Tid]; !ok {
			order = append(order, row.Tid)
		}
		line := fmt.Sprintf("%s|%s|%d|%v", row.Row, row.Path, row.Level, row.HasChild)
		if row.Level == 1 {
			per[row.Tid] = append(per[row.Tid], line)
			cur[row.Tid] = len(per[row.Tid]) - 1
		} else if len(per[row.Tid]) == 0 {
			per[row.Tid] = append(per[row.Tid], "(no root)\n"+line)
		} else {
			per[row.Tid][cur[row.Tid]] += "\n" + line
		}
	}
	for _, t := range order {
		blocks = append(blocks, per[t]...)
	}
	sort.Strings(blocks)
	return blocks
}
