//go:build mcbuild

package main

import (
	"fmt"
	"sort"
	"strings"

	mc "github.com/ddddddO/gtree/verifmc"
	"github.com/ddddddO/gtree/verifmc/mctx"
	"github.com/ddddddO/gtree/verifmc/msync"
)

// The runtime's own unit tests: tiny programs whose complete behaviour sets are known from the Go language
// specification and memory model are explored EXHAUSTIVELY (unbounded DFS over all choices) and the set of
// outcomes is compared with the expected set. Run by setup (mcx -selftest); a failure makes setup fail.

type miniResult struct {
	outcomes map[string]int
	execs    int
	races    map[string]int
}

func exploreAll(body func(rec func(string))) miniResult {
	res := miniResult{outcomes: map[string]int{}, races: map[string]int{}}
	stack := [][]int{nil}
	for len(stack) > 0 {
		prefix := stack[len(stack)-1]
		stack = stack[:len(stack)-1]
		var log []string
		out := mc.Run(prefix, 0, 10000, func() { body(func(s string) { log = append(log, s) }) })
		res.execs++
		for k, v := range out.Races {
			res.races[k] += v
		}
		key := out.End() + ":" + strings.Join(log, ",")
		if out.End() == "panic" {
			p := out.Panic
			if i := strings.Index(p, "\n"); i >= 0 {
				p = p[:i]
			}
			if i := strings.Index(p, "): "); i >= 0 {
				p = p[i+3:]
			}
			key = "panic:" + p
		}
		res.outcomes[key]++
		for i := len(prefix); i < len(out.Points); i++ {
			for alt := 1; alt < out.Points[i].N; alt++ {
				np := make([]int, i+1)
				for j := 0; j < i; j++ {
					np[j] = out.Points[j].Chosen
				}
				np[i] = alt
				stack = append(stack, np)
			}
		}
	}
	return res
}

func keysOfMap(m map[string]int) []string {
	var k []string
	for x := range m {
		k = append(k, x)
	}
	sort.Strings(k)
	return k
}

func runSelfTests() int {
	fails := 0
	check := func(name string, r miniResult, want []string, wantRace bool) {
		sort.Strings(want)
		got := keysOfMap(r.outcomes)
		ok := strings.Join(got, " | ") == strings.Join(want, " | ") && (len(r.races) > 0) == wantRace
		st := "ok  "
		if !ok {
			st = "FAIL"
			fails++
		}
		fmt.Printf("%s %-34s execs=%-5d outcomes=%v races=%d\n", st, name, r.execs, got, len(r.races))
		if !ok {
			fmt.Printf("     want outcomes=%v race=%v\n", want, wantRace)
		}
	}
	site := mc.AddSite("selftest:x")
	mc.MemOn = true

	// 1. unbuffered rendezvous: the receiver always gets the value, nobody is left behind
	check("unbuffered ping", exploreAll(func(rec func(string)) {
		c := mc.NewChan[int](0)
		mc.Go(func() { c.Send(7) })
		rec(fmt.Sprint(c.Recv1()))
	}), []string{"complete:7"}, false)

	// 2. two senders, one receiver taking both: both orders are behaviours
	check("two senders both orders", exploreAll(func(rec func(string)) {
		c := mc.NewChan[int](0)
		mc.Go(func() { c.Send(1) })
		mc.Go(func() { c.Send(2) })
		rec(fmt.Sprint(c.Recv1(), c.Recv1()))
	}), []string{"complete:1 2", "complete:2 1"}, false)

	// 3. select with two ready cases: each may be chosen; default only when none is ready
	check("select both ready", exploreAll(func(rec func(string)) {
		a, b := mc.NewChan[int](1), mc.NewChan[int](1)
		a.Send(1)
		b.Send(2)
		s := mc.Select(true, mc.RecvCase(a), mc.RecvCase(b))
		rec(fmt.Sprint(s.Idx))
	}), []string{"complete:0", "complete:1"}, false)
	check("select default when none ready", exploreAll(func(rec func(string)) {
		a := mc.NewChan[int](0)
		s := mc.Select(true, mc.RecvCase(a))
		rec(fmt.Sprint(s.Idx))
	}), []string{"complete:-1"}, false)

	// 4. buffered channel: cap-1 channel, second send without a receiver blocks forever (hang detected)
	check("buffer full blocks", exploreAll(func(rec func(string)) {
		c := mc.NewChan[int](1)
		c.Send(1)
		c.Send(2)
		rec("unreachable")
	}), []string{"hang:"}, false)

	// 5. close wakes receivers with ok=false; send on closed channel panics; leak of a blocked sender is seen
	check("close wakes receiver", exploreAll(func(rec func(string)) {
		c := mc.NewChan[int](0)
		mc.Go(func() { c.Close() })
		_, ok := c.Recv()
		rec(fmt.Sprint(ok))
	}), []string{"complete:false"}, false)
	check("send on closed panics", exploreAll(func(rec func(string)) {
		c := mc.NewChan[int](1)
		c.Close()
		c.Send(1)
	}), []string{"panic:send on closed channel"}, false)
	check("abandoned sender is a leak", exploreAll(func(rec func(string)) {
		c := mc.NewChan[int](0)
		mc.Go(func() { c.Send(1) })
		rec("returned")
	}), []string{"leak:returned"}, false)

	// 6. mutex: increments are never lost; without it the lost update is found and the race is reported
	check("mutex protects counter", exploreAll(func(rec func(string)) {
		var mu msync.Mutex
		var wg msync.WaitGroup
		x := 0
		for i := 0; i < 2; i++ {
			wg.Add(1)
			mc.Go(func() {
				mu.Lock()
				v := *mc.R(&x, site)
				mc.Yield()
				*mc.W(&x, site) = v + 1
				mu.Unlock()
				wg.Done()
			})
		}
		wg.Wait()
		rec(fmt.Sprint(x))
	}), []string{"complete:2"}, false)
	check("no mutex: lost update + race", exploreAll(func(rec func(string)) {
		var wg msync.WaitGroup
		x := 0
		for i := 0; i < 2; i++ {
			wg.Add(1)
			mc.Go(func() {
				v := *mc.R(&x, site)
				mc.Yield()
				*mc.W(&x, site) = v + 1
				wg.Done()
			})
		}
		wg.Wait()
		rec(fmt.Sprint(x))
	}), []string{"complete:1", "complete:2"}, true)

	// 7. happens-before through a channel: write before send, read after receive is not a race
	check("channel orders accesses", exploreAll(func(rec func(string)) {
		c := mc.NewChan[int](0)
		x := 0
		mc.Go(func() { *mc.W(&x, site) = 5; c.Send(1) })
		c.Recv1()
		rec(fmt.Sprint(*mc.R(&x, site)))
	}), []string{"complete:5"}, false)
	check("unordered write/read is a race", exploreAll(func(rec func(string)) {
		c := mc.NewChan[int](1)
		x := 0
		mc.Go(func() { c.Send(1); *mc.W(&x, site) = 5 })
		c.Recv1()
		rec(fmt.Sprint(*mc.R(&x, site) >= 0))
	}), []string{"complete:true"}, true)

	// 8. context: cancelling the parent closes the child's Done; Err is reported
	check("context cancel propagates", exploreAll(func(rec func(string)) {
		p, cancel := mctx.WithCancel(mctx.Background())
		ch, _ := mctx.WithCancel(p)
		mc.Go(func() { cancel() })
		ch.Done().Recv()
		rec(fmt.Sprint(ch.Err() != nil))
	}), []string{"complete:true"}, false)

	// 9. WaitGroup: Wait returns only after both Done; RWMutex excludes writer from readers
	check("waitgroup waits", exploreAll(func(rec func(string)) {
		var wg msync.WaitGroup
		n := 0
		wg.Add(2)
		mc.Go(func() { n++; wg.Done() })
		mc.Go(func() { n++; wg.Done() })
		wg.Wait()
		rec(fmt.Sprint(n))
	}), []string{"complete:2"}, false)

	// 10. replay determinism: the same choice list gives the same trace twice
	{
		body := func() {
			c := mc.NewChan[int](0)
			mc.Go(func() { c.Send(1) })
			mc.Go(func() { c.Send(2) })
			c.Recv1()
			c.Recv1()
		}
		o1 := mc.Run([]int{0, 1}, 0, 1000, body)
		o2 := mc.Run([]int{0, 1}, 0, 1000, body)
		ok := traceString(&o1) == traceString(&o2) && o1.Diverged == ""
		st := "ok  "
		if !ok {
			st = "FAIL"
			fails++
		}
		fmt.Printf("%s %-34s\n", st, "replay determinism")
		od := mc.Run([]int{0, 9}, 0, 1000, body)
		if od.Diverged == "" {
			fails++
			fmt.Println("FAIL out-of-range choice must be reported as divergence")
		} else {
			fmt.Printf("ok   %-34s\n", "out-of-range choice is a divergence")
		}
	}
	if fails > 0 {
		fmt.Printf("RUNTIME SELF-TEST FAILED: %d\n", fails)
		return 1
	}
	fmt.Println("runtime self-test passed")
	return 0
}
