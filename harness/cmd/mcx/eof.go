//go:build mcbuild

package main

import "io"

var errEOF = io.EOF
