//go:build mcbuild

package main

import (
	"fmt"
	"sort"
	"strings"

	mc "github.com/ddddddO/gtree/verifmc"

	"verifharness/model"
)

// ---- C10: massive mode == simple mode up to the order of roots

type c10Ref struct {
	out      string
	err      error
	panicked string
	blocks   []string // per-root blocks of the reference output (text/dry/json/yaml)
	walk     []string
	after    map[string]string
	okBlocks []string          // blocks of the roots that are valid on their own (used when the reference fails)
	allowed  map[string]string // mkdir: pre-existing entries plus what each individually valid root creates
}

func subsetSnap(a, b map[string]string) bool {
	for k, v := range a {
		if b[k] != v {
			return false
		}
	}
	return true
}

type c10Exec struct {
	*DrvRun
	ref *c10Ref
	sc  *c10Spec
}

// c10Spec describes a document as root blocks (Markdown text of each root) so that
// reference blocks can be cut out of the simple-mode output.
type c10Spec struct {
	name      string
	op        string
	roots     []string // Markdown of each root block
	prefix    string   // text before the first root (blank lines)
	exts      []string
	pre       map[string]byte
	strict    bool
	lines     []int // number of output lines of each root in text mode (nodes after merging)
	fm        *model.Fmt4
	fsFail    int    // fail the k-th file-system call (both modes): only the error verdict is compared
	fsErrno   string // what the failing call reports ("" = EIO)
	fsPersist bool   // every call from the k-th on fails
}

func (s *c10Spec) doc() string { return s.prefix + strings.Join(s.roots, "") }

func (e *c10Exec) Outcome() string {
	return fmt.Sprintf("err=%v out=%s rows=%d fs=%d", e.Err != nil, short(e.Out), len(e.Rows), len(e.After))
}

func splitOutput(op, out string, lines []int) ([]string, bool) {
	switch op {
	case "out-json":
		var bl []string
		for _, l := range strings.SplitAfter(out, "\n") {
			if l != "" {
				bl = append(bl, l)
			}
		}
		return bl, true
	case "out-yaml":
		if out == "" {
			return nil, true
		}
		return strings.Split(out, "---\n"), true
	}
	extra := 0
	if op == "out-dry" {
		extra = 2
	}
	all := strings.SplitAfter(out, "\n")
	if len(all) > 0 && all[len(all)-1] == "" {
		all = all[:len(all)-1]
	}
	var bl []string
	p := 0
	for _, n := range lines {
		n += extra
		if p+n > len(all) {
			return nil, false
		}
		bl = append(bl, strings.Join(all[p:p+n], ""))
		p += n
	}
	return bl, p == len(all)
}

// isPermutationOfBlocks: out is a concatenation of all blocks in some order (each exactly once).
func isPermutationOfBlocks(out string, blocks []string, sep string, needAll bool) bool {
	used := make([]bool, len(blocks))
	var rec func(p int, n int) bool
	rec = func(p int, n int) bool {
		if p == len(out) {
			return !needAll || n == len(blocks)
		}
		s := out[p:]
		if n > 0 && sep != "" {
			if !strings.HasPrefix(s, sep) {
				return false
			}
			s = s[len(sep):]
			p += len(sep)
		}
		tried := map[string]bool{}
		for i, b := range blocks {
			if used[i] || tried[b] || b == "" || !strings.HasPrefix(s, b) {
				continue
			}
			tried[b] = true
			used[i] = true
			if rec(p+len(b), n+1) {
				return true
			}
			used[i] = false
		}
		return false
	}
	return rec(0, 0)
}

func (e *c10Exec) Check(o *mc.Outcome) []Viol {
	e.Finish()
	if e.W != nil {
		// judge the bytes the writer holds at quiescence: on an error path the call may return while a worker
		// is still inside a root block (goroutines settle after the return; C11 checks that they do)
		e.Out = e.W.buf.String()
	}
	var vs []Viol
	ref := e.ref
	d := e.d
	if o.End() == "panic" {
		if ref.panicked == "" {
			vs = append(vs, Viol{"C10|panic-in-massive|" + panicSig(o.Panic), fmt.Sprintf("driver %s\nsimple mode: err=%v out=%q\n%s", d, ref.err, ref.out, o.Panic)})
		}
		return vs
	}
	if !e.Returned {
		return nil // hang: C11's business
	}
	if ref.panicked != "" {
		return nil // the simple mode itself crashes on this input (C12's business); nothing to compare with
	}
	if (e.Err != nil) != (ref.err != nil) {
		vs = append(vs, Viol{fmt.Sprintf("C10|error-mismatch|massive=%v simple=%v|%s", errClass(e.Err), errClass(ref.err), e.sc.name),
			fmt.Sprintf("driver %s\nmassive: err=%v out=%q\nsimple:  err=%v out=%q", d, e.Err, e.Out, ref.err, ref.out)})
	}
	op := strings.TrimPrefix(d.Op, "root:")
	switch {
	case strings.HasPrefix(op, "out-"):
		sep := ""
		if op == "out-yaml" {
			sep = "---\n"
		}
		if ref.err == nil && e.Err == nil {
			if !isPermutationOfBlocks(e.Out, ref.blocks, sep, true) {
				vs = append(vs, Viol{"C10|output-not-permutation-of-blocks|" + op + "|" + e.sc.name, fmt.Sprintf("driver %s\nmassive out=%q\nsimple blocks=%q", d, e.Out, ref.blocks)})
			}
		} else if !isPermutationOfBlocks(e.Out, ref.okBlocks, sep, false) {
			// whatever was written before the failure must consist of intact blocks of valid roots
			vs = append(vs, Viol{"C10|torn-or-foreign-block|" + op + "|" + e.sc.name, fmt.Sprintf("driver %s\nmassive out=%q err=%v\nblocks of valid roots=%q", d, e.Out, e.Err, ref.okBlocks)})
		}
	case op == "walk":
		if ref.err == nil && e.Err == nil {
			got := strings.Join(e.WalkBlocks(), "\n--\n")
			want := strings.Join(ref.walk, "\n--\n")
			if got != want {
				vs = append(vs, Viol{"C10|walk-differs|" + e.sc.name, fmt.Sprintf("driver %s\nmassive blocks:\n%s\nsimple blocks:\n%s", d, got, want)})
			}
		}
	case op == "mkdir" && d.FSFailAt > 0:
		// a single failing file-system call: only "error iff simple mode errs" is compared (the two modes issue
		// their calls in different orders, so the file systems legitimately differ)
	case op == "mkdir":
		if e.OutsideChanged != "" {
			vs = append(vs, Viol{"C10|mkdir-outside-target|" + e.sc.name, e.OutsideChanged})
		}
		if !snapEqual(e.After, ref.after) {
			sig := "C10|mkdir-fs-differs|" + e.sc.name
			if ref.err != nil && e.Err != nil && subsetSnap(e.After, ref.allowed) {
				// simple mode fails before creating anything; massive mode has already created some of the valid roots
				sig = "C10|mkdir-partial-creation-when-the-call-fails"
			}
			vs = append(vs, Viol{sig, fmt.Sprintf("driver %s\nmassive: err=%v fs=%v\nsimple:  err=%v fs=%v", d, e.Err, keys(e.After), ref.err, keys(ref.after))})
		}
	case op == "verify":
		if !snapEqual(e.After, ref.after) {
			vs = append(vs, Viol{"C10|verify-changed-fs|" + e.sc.name, fmt.Sprintf("%v vs %v", keys(e.After), keys(ref.after))})
		}
	}
	return vs
}

func errClass(err error) string {
	if err == nil {
		return "nil"
	}
	return "err"
}

func snapEqual(a, b map[string]string) bool {
	if len(a) != len(b) {
		return false
	}
	for k, v := range a {
		if b[k] != v {
			return false
		}
	}
	return true
}

func keys(m map[string]string) []string {
	var ks []string
	for k, v := range m {
		ks = append(ks, k+":"+v[:1])
	}
	sort.Strings(ks)
	return ks
}

func runSimple(d Drv) *DrvRun {
	d.Simple, d.NoYield, d.Canceller, d.PreCancel, d.ReaderCancelAt = true, true, false, false, -1
	run := d.New()
	run.Body()
	run.Finish()
	return run
}

func c10Scenario(sp *c10Spec, bound int, workers map[string]int, pols []int) *Scenario {
	if bound >= 2 && len(pols) > 1 && !thoroughTier {
		pols = pols[:1] // quick: the deeper bound is explored around the default base schedule only
	}
	d := NewDrv(sp.op, sp.doc())
	d.Exts, d.Pre, d.Strict, d.Fmt, d.FSFailAt = sp.exts, sp.pre, sp.strict, sp.fm, sp.fsFail
	d.FSErrno, d.FSPersist = sp.fsErrno, sp.fsPersist
	ref := &c10Ref{}
	return &Scenario{
		Name: "c10/" + sp.name + "/" + sp.op, Prop: "C10", Workers: workers, Bound: bound, Policies: pols,
		Prepare: func() {
			*ref = c10Ref{}
			var run *DrvRun
			func() {
				defer func() {
					if r := recover(); r != nil {
						ref.panicked = fmt.Sprint(r)
					}
				}()
				run = runSimple(*d)
			}()
			if ref.panicked != "" {
				return
			}
			ref.out, ref.err, ref.after = run.Out, run.Err, run.After
			ref.walk = run.WalkBlocks()
			if sp.op == "mkdir" {
				ref.allowed = map[string]string{}
				for _, r := range sp.roots {
					dd := *d
					dd.Doc = r
					var one *DrvRun
					func() {
						defer func() { recover() }()
						one = runSimple(dd)
					}()
					if one != nil {
						for k, v := range one.After {
							ref.allowed[k] = v
						}
					}
				}
				for k, v := range ref.after {
					ref.allowed[k] = v
				}
			}
			if strings.HasPrefix(sp.op, "out-") {
				if ref.err == nil {
					bl, ok := splitOutput(sp.op, ref.out, sp.lines)
					if !ok {
						panic(fmt.Sprintf("scenario %s: cannot split the simple-mode output %q by %v", sp.name, ref.out, sp.lines))
					}
					ref.blocks = bl
				}
				// blocks of roots that are valid alone
				for _, r := range sp.roots {
					dd := *d
					dd.Doc = r
					var one *DrvRun
					func() {
						defer func() { recover() }()
						one = runSimple(dd)
					}()
					if one != nil && one.Err == nil && one.Out != "" {
						b := one.Out
						if sp.op == "out-yaml" {
							b = strings.TrimPrefix(b, "---\n")
						}
						ref.okBlocks = append(ref.okBlocks, b)
					}
				}
			}
		},
		New: func() Exec { return &c10Exec{DrvRun: d.New(), ref: ref, sc: sp} },
	}
}

var thoroughTier bool

// c10MatrixScenario: an arbitrary combination of options; whatever it means, massive mode must produce the same lines
// (as a multiset, roots may come in any order) and the same error verdict as simple mode with the same options.
type c10MatrixExec struct {
	*DrvRun
	ref *DrvRun
}

func (e *c10MatrixExec) Outcome() string {
	return fmt.Sprintf("err=%v out=%s", e.Err != nil, short(e.Out))
}

func (e *c10MatrixExec) Check(o *mc.Outcome) []Viol {
	e.Finish()
	if e.W != nil {
		e.Out = e.W.buf.String()
	}
	if o.End() == "panic" {
		return []Viol{{"C10|panic-in-massive|" + panicSig(o.Panic), fmt.Sprintf("driver %s\n%s", e.d, o.Panic)}}
	}
	if !e.Returned || e.ref == nil {
		return nil
	}
	var vs []Viol
	if (e.Err != nil) != (e.ref.Err != nil) {
		vs = append(vs, Viol{"C10|error-mismatch|option-matrix|" + e.d.ExtraOpts, fmt.Sprintf("driver %s: massive err=%v, simple err=%v", e.d, e.Err, e.ref.Err)})
	} else if e.Err == nil && sortedLinesOf(e.Out) != sortedLinesOf(e.ref.Out) {
		vs = append(vs, Viol{"C10|output-differs|option-matrix|" + e.d.ExtraOpts, fmt.Sprintf("driver %s:\nmassive %q\nsimple  %q", e.d, e.Out, e.ref.Out)})
	}
	return vs
}

// c10RootScenario: the From-Root family with the massive option against the same call without it (one root).
type c10RootExec struct {
	*DrvRun
	ref *DrvRun
}

func (e *c10RootExec) Outcome() string {
	return fmt.Sprintf("err=%v out=%s rows=%d fs=%d", e.Err != nil, short(e.Out), len(e.Rows), len(e.After))
}

func (e *c10RootExec) Check(o *mc.Outcome) []Viol {
	e.Finish()
	if e.W != nil {
		e.Out = e.W.buf.String()
	}
	if o.End() == "panic" {
		return []Viol{{"C10|panic-in-massive|" + panicSig(o.Panic), fmt.Sprintf("driver %s\n%s", e.d, o.Panic)}}
	}
	if !e.Returned || e.ref == nil {
		return nil
	}
	var vs []Viol
	if (e.Err != nil) != (e.ref.Err != nil) {
		vs = append(vs, Viol{"C10|error-mismatch|from-root|" + e.d.Op, fmt.Sprintf("driver %s: massive err=%v, simple err=%v", e.d, e.Err, e.ref.Err)})
	}
	if e.Err == nil && e.ref.Err == nil {
		if e.Out != e.ref.Out {
			vs = append(vs, Viol{"C10|from-root-output-differs|" + e.d.Op, fmt.Sprintf("driver %s:\nmassive %q\nsimple  %q", e.d, e.Out, e.ref.Out)})
		}
		if strings.Join(e.WalkBlocks(), "|") != strings.Join(e.ref.WalkBlocks(), "|") {
			vs = append(vs, Viol{"C10|from-root-walk-differs|" + e.d.Op, fmt.Sprintf("driver %s:\nmassive %q\nsimple  %q", e.d, e.WalkBlocks(), e.ref.WalkBlocks())})
		}
	}
	if !snapEqual(e.After, e.ref.After) {
		vs = append(vs, Viol{"C10|from-root-fs-differs|" + e.d.Op, fmt.Sprintf("driver %s: massive %v simple %v", e.d, keys(e.After), keys(e.ref.After))})
	}
	if e.OutsideChanged != "" {
		vs = append(vs, Viol{"C10|mkdir-outside-target|from-root", e.OutsideChanged})
	}
	if e.TreeChanged != "" {
		// simple mode leaves the caller's tree as it was; so must massive mode
		vs = append(vs, Viol{"C10|callers-tree-changed|" + e.d.Op, fmt.Sprintf("driver %s: %s", e.d, e.TreeChanged)})
	}
	return vs
}

func c10RootScenario(name string, d *Drv, bound int, pols []int) *Scenario {
	var ref *DrvRun
	return &Scenario{Name: "c10/root/" + name, Prop: "C10", Workers: w2, Bound: bound, Policies: pols,
		Prepare: func() {
			ref = nil
			func() {
				defer func() { recover() }()
				ref = runSimple(*d)
			}()
		},
		New: func() Exec { return &c10RootExec{DrvRun: d.New(), ref: ref} }}
}

func init() {
	scenarioGens["C10"] = func(tier string) []*Scenario {
		var out []*Scenario
		k1, k2 := 1, 2
		pols := []int{0, 1, 2}
		thoroughTier = tier == "thorough"
		if tier == "thorough" {
			k1, k2 = 2, 3
		}
		type docT struct {
			name   string
			roots  []string
			lines  []int
			prefix string
		}
		docs := []docT{
			{"two", []string{"- a\n  - b\n", "- c\n  - d\n  - e\n"}, []int{2, 3}, ""},
			{"three", []string{"- a\n  - b\n    - c\n", "- d\n", "- e\n  - f\n"}, []int{3, 1, 2}, ""},
			{"equal-roots", []string{"- a\n  - x\n", "- a\n  - y\n"}, []int{2, 2}, ""},
			{"prefix-blocks", []string{"- a\n", "- a\n  - b\n"}, []int{1, 2}, ""},
			{"merged-siblings", []string{"- a\n  - b\n  - b\n    - c\n", "- d\n"}, []int{3, 1}, ""},
			{"format-verbs", []string{"- 100%d\n  - a%%b\n  - %s\n", "- {}\n  - %v%!\n"}, []int{3, 2}, ""},
			{"special-names", []string{"- p ├── q\n  - <&>\"\n    - C#\n  - └── x\n", "- a\tb\n  - é日本\n"}, []int{4, 2}, ""},
		}
		bad := []docT{
			{"bad-first", []string{"- a\n  -\n", "- c\n  - d\n"}, nil, ""},
			{"bad-last", []string{"- a\n  - b\n", "- c\n   x\n"}, nil, ""},
			{"bad-middle", []string{"- a\n", "- c\n  - d\n      - e\n    -\n", "- f\n"}, nil, ""},
			{"all-bad", []string{"- a\n  -\n", "- c\n  -\n"}, nil, ""},
			// the only malformation is an over-nested item in a later root, after a root deep enough to offer a stale parent
			{"jump-second", []string{"- a\n  - b\n    - c\n", "- d\n      - e\n"}, nil, ""},
			{"jump-third", []string{"- a\n  - b\n    - c\n      - d\n", "- e\n  - f\n", "- g\n        - h\n"}, nil, ""},
			// something that is not a root in front of the first root (an item with no root above it, plain text)
			{"orphan-before-first-root", []string{"- a\n  - b\n", "- c\n"}, nil, "  - x\n"},
			{"text-before-first-root", []string{"- a\n", "- c\n  - d\n"}, nil, "\nzzz\n"},
		}
		special := []docT{
			{"sharp-roots", []string{"# a\n- b\n", "# c\n- d\n"}, []int{2, 2}, ""},
			{"leading-blank", []string{"- a\n  - b\n", "- c\n"}, []int{2, 1}, "\n"},
			{"mixed-unit", []string{"- a\n    - b\n", "- c\n  - d\n"}, nil, ""},
			{"blank-between", []string{"- a\n  - b\n\n", "- c\n"}, []int{2, 1}, ""},
			{"star-plus-roots", []string{"* a\n  + b\n", "+ c\n  * d\n"}, []int{2, 2}, ""},
		}
		add := func(d docT, op string, bound int, w map[string]int, mut func(*c10Spec)) {
			sp := &c10Spec{name: d.name, op: op, roots: d.roots, prefix: d.prefix, lines: d.lines}
			if mut != nil {
				mut(sp)
			}
			out = append(out, c10Scenario(sp, bound, w, pols))
		}
		for _, d := range docs {
			for _, op := range []string{"out-text", "out-json", "out-yaml", "out-dry", "walk", "mkdir", "verify"} {
				b := k1
				if d.name == "two" && (op == "out-text" || op == "out-dry" || op == "mkdir") && tier == "quick" {
					b = k2
				}
				var mut func(*c10Spec)
				switch op {
				case "out-dry":
					mut = func(s *c10Spec) { s.exts = []string{"b", "d"} }
				case "mkdir":
					mut = func(s *c10Spec) { s.exts = []string{"b", "d"} }
				case "verify":
					mut = func(s *c10Spec) { s.pre = map[string]byte{"a/b": 'd', "c/d": 'd', "d": 'd', "e/f": 'd', "a/x": 'd'} }
				}
				add(d, op, b, w2, mut)
			}
		}
		for _, d := range bad {
			for _, op := range []string{"out-text", "out-json", "out-dry", "walk", "mkdir"} {
				add(d, op, k1, w3, nil)
			}
		}
		for _, d := range special {
			for _, op := range []string{"out-text", "out-json", "walk", "mkdir"} {
				add(d, op, k1, w2, nil)
			}
		}
		// names that are not a single path element, at every kind of position (childless root, root with children,
		// inner node, leaf), alone and next to a valid root: the validating operations must give the simple-mode verdict
		hostile := []docT{
			{"badname-childless-root", []string{"- a/b\n", "- c\n  - d\n"}, nil, ""},
			{"badname-childless-root-only", []string{"- a/b\n"}, nil, ""},
			{"badname-dotdot-root-last", []string{"- c\n", "- ..\n"}, nil, ""},
			{"badname-root-with-child", []string{"- a/b\n  - x\n", "- c\n"}, nil, ""},
			{"badname-leaf", []string{"- a\n  - b\n", "- c\n  - x/y\n"}, nil, ""},
			{"badname-inner", []string{"- a\n  - .\n    - k\n"}, nil, ""},
		}
		for _, d := range hostile {
			for _, op := range []string{"out-dry", "mkdir", "verify"} {
				add(d, op, k1, w2, nil)
			}
			add(d, "verify", 0, w3, func(s *c10Spec) { s.name += "/strict"; s.strict = true })
		}
		// verify: directory states in which something else than a directory sits where the tree has a node, entries
		// are missing, or extra entries exist; strict and not
		{
			d := docs[1] // a/b/c, d, e/f
			states := map[string]map[string]byte{
				"empty":            {},
				"complete":         {"a/b/c": 'd', "d": 'd', "e/f": 'd'},
				"file-at-inner":    {"a/b": 'f', "d": 'd', "e/f": 'd'},
				"file-at-leaf":     {"a/b/c": 'f', "d": 'd', "e/f": 'f'},
				"root-is-file":     {"a/b/c": 'd', "d": 'f', "e/f": 'd'},
				"extra-entries":    {"a/b/c": 'd', "a/zz": 'f', "d/yy": 'd', "e/f/deep/er": 'd'},
				"last-root-absent": {"a/b/c": 'd', "d": 'd'},
				"leaf-absent":      {"a/b": 'd', "d": 'd', "e": 'd'},
			}
			var names []string
			for n := range states {
				names = append(names, n)
			}
			sort.Strings(names)
			for _, n := range names {
				for _, strict := range []bool{false, true} {
					st, str := states[n], strict
					add(d, "verify", 0, w2, func(s *c10Spec) {
						s.name += "/state-" + n + fmt.Sprintf("/strict=%v", str)
						s.pre, s.strict = st, str
					})
				}
			}
		}
		// several extensions, and every root has leaves of each kind (what a leaf is must not depend on what another
		// worker has just decided for another leaf)
		{
			d := docT{"exts-mixed", []string{"- a\n  - x.b\n  - y.d\n  - z\n", "- c\n  - p.d\n  - q.b\n", "- e\n  - r.d\n  - s.b\n  - t.d\n"}, []int{4, 3, 4}, ""}
			for _, op := range []string{"mkdir", "out-dry"} {
				add(d, op, k2, w2, func(s *c10Spec) { s.exts = []string{".b", ".d"} })
				add(d, op, k1, w3, func(s *c10Spec) { s.name += "/w3"; s.exts = []string{".d", ".zz", ".b"} })
			}
		}
		// one worker per stage: every block passes through the same worker (state kept between blocks shows here)
		w1only := map[string]int{"*": 1}
		w1gen := map[string]int{"workerGenerateNum": 1, "workerGrowNum": 1, "*": 2}
		for _, d := range append(append([]docT{}, docs[:3]...), bad...) {
			for _, op := range []string{"out-text", "walk", "out-json"} {
				dd := d
				dd.name = d.name + "/w1"
				sp := &c10Spec{name: dd.name, op: op, roots: dd.roots, prefix: dd.prefix, lines: dd.lines}
				out = append(out, c10Scenario(sp, k1, w1only, pols))
				if op == "out-text" {
					dd.name = d.name + "/w1gen"
					sp := &c10Spec{name: dd.name, op: op, roots: dd.roots, prefix: dd.prefix, lines: dd.lines}
					out = append(out, c10Scenario(sp, k1, w1gen, pols))
				}
			}
		}
		// more roots than the pipeline can hold in flight (workers x stages): back-pressure reaches the splitter
		{
			var roots []string
			var lines []int
			for i := 0; i < 8; i++ {
				roots = append(roots, fmt.Sprintf("- r%d\n  - k%d\n", i, i))
				lines = append(lines, 2)
			}
			d := docT{"many-roots", roots, lines, ""}
			for _, op := range []string{"out-text", "walk", "out-json", "out-dry"} {
				add(d, op, 1, w2, nil)
				sp := &c10Spec{name: "many-roots/w1", op: op, roots: roots, lines: lines}
				out = append(out, c10Scenario(sp, 1, w1only, pols))
			}
		}
		// lines longer than typical buffer sizes (but within the scanner's 64 KiB token limit), by name and by indentation
		for _, n := range []int{4090, 4096, 9000} {
			long := strings.Repeat("x", n)
			d := docT{fmt.Sprintf("long-name-%d", n), []string{"- a\n  - " + long + "\n", "- b\n  - c\n"}, []int{2, 2}, ""}
			add(d, "out-text", 1, w2, nil)
			add(d, "walk", 1, w2, nil)
		}
		{
			// depth 70 with a 64-space unit: the deepest line has 4416 bytes of indentation
			var sb strings.Builder
			sb.WriteString("- r\n")
			for l := 1; l <= 70; l++ {
				sb.WriteString(strings.Repeat(" ", 64*l) + "- n\n")
			}
			d := docT{"deep-wide-indent", []string{sb.String(), "- b\n"}, []int{71, 1}, ""}
			add(d, "out-text", 1, w2, nil)
		}
		// two roots that are both deep (depth 9): anything kept per "deep node" in a shared object shows here
		{
			deep := func(r string) string {
				s := "- " + r + "\n"
				for l := 1; l <= 8; l++ {
					s += strings.Repeat("  ", l) + "- " + fmt.Sprintf("%s%d", r, l) + "\n"
				}
				return s + "  - " + r + "tail\n"
			}
			d := docT{"two-deep", []string{deep("p"), deep("q")}, []int{10, 10}, ""}
			for _, op := range []string{"out-text", "walk", "out-dry", "mkdir"} {
				add(d, op, 1, w2, nil)
			}
		}
		// roots whose rendering is larger than a typical I/O buffer (4096 bytes): blocks must stay intact
		{
			big := func(r string) string {
				var sb strings.Builder
				sb.WriteString("- " + r + "\n")
				for i := 0; i < 48; i++ {
					// 48 rows of ~100 bytes: about 4.9 KB per root, more than one 4096-byte buffer
					fmt.Fprintf(&sb, "  - %s-child-%03d-%s\n", r, i, strings.Repeat("x", 80))
				}
				return sb.String()
			}
			d := docT{"big-roots", []string{big("alpha"), big("beta")}, []int{49, 49}, ""}
			add(d, "out-text", 1, w2, nil)
			add(d, "out-dry", 1, w2, nil)
		}
		// parents with many children (collection-size thresholds: 8, 10, 16) in two roots that differ in name and depth:
		// anything remembered about "the current parent" and shared between workers shows here
		{
			var a, b strings.Builder
			a.WriteString("- wa\n")
			b.WriteString("- wb\n  - mid\n")
			for i := 0; i < 17; i++ {
				fmt.Fprintf(&a, "  - a%02d\n", i)
				fmt.Fprintf(&b, "    - b%02d\n", i)
			}
			d := docT{"wide-roots", []string{a.String(), b.String()}, []int{18, 19}, ""}
			for _, op := range []string{"out-text", "walk", "out-dry", "mkdir", "out-json"} {
				add(d, op, 1, w2, nil)
			}
		}
		// size thresholds under the scheduler: a root with K children next to the powers of two (a stage that fans the
		// children of a big root out to helpers, a per-node index that appears at 64 children) and a chain of 130 levels,
		// each next to a small second root; one worker per stage and two
		for _, K := range []int{63, 64, 65, 66, 129} {
			var a strings.Builder
			a.WriteString("- big\n")
			for i := 0; i < K; i++ {
				fmt.Fprintf(&a, "  - k%03d\n", i)
				if i == 0 || i == K-1 {
					a.WriteString("    - g\n")
				}
			}
			d := docT{fmt.Sprintf("wide-root-%d", K), []string{a.String(), "- small\n  - s\n"}, []int{K + 3, 2}, ""}
			for _, op := range []string{"out-text", "walk", "out-dry"} {
				b := 0
				if K == 65 && op != "out-dry" {
					b = 1
				}
				add(d, op, b, w2, nil)
				sp := &c10Spec{name: d.name + "/w1", op: op, roots: d.roots, lines: d.lines}
				out = append(out, c10Scenario(sp, b, w1only, pols))
			}
		}
		{
			var a strings.Builder
			for l := 0; l < 130; l++ {
				fmt.Fprintf(&a, "%s- n%d\n", strings.Repeat("\t", l), l)
			}
			a.WriteString("\t- back\n")
			d := docT{"deep-root-130", []string{a.String(), "- small\n\t- s\n"}, []int{131, 2}, ""}
			for _, op := range []string{"out-text", "walk"} {
				add(d, op, 0, w2, nil)
			}
		}
		// white-space-only lines of other kinds than blanks and tabs inside and between root blocks
		{
			d := docT{"exotic-blank-lines", []string{"- a\n\u3000\n  - b\n\f\n", "\u00a0\n- c\n\v\n  - d\n \u2028\n  - e\n"}, []int{2, 3}, ""}
			for _, op := range []string{"out-text", "walk", "out-json", "mkdir"} {
				add(d, op, k1, w2, nil)
			}
		}
		// custom branch strings (equal and unequal widths, empty connector) together with the massive option
		for fi, fm := range []model.Fmt4{
			{LastDirect: "`--", LastIndirect: "    ", MidDirect: "+--", MidIndirect: ":   "},
			{LastDirect: "\\____", LastIndirect: "  ", MidDirect: "|-", MidIndirect: "|    "},
			{LastDirect: "", LastIndirect: "xx", MidDirect: "├──", MidIndirect: ""},
		} {
			fm := fm
			for _, op := range []string{"out-text", "walk", "out-dry"} {
				add(docs[1], op, k1, w2, func(s *c10Spec) { s.name = fmt.Sprintf("three/fmt%d", fi); s.fm = &fm; s.exts = []string{"f"} })
			}
		}
		// a failing file-system call at every position of a massive mkdir
		for j := 1; j <= 8; j++ {
			j := j
			add(docs[0], "mkdir", k1, w2, func(s *c10Spec) { s.name = fmt.Sprintf("two/fsfail%d", j); s.fsFail = j; s.exts = []string{"e"} })
		}
		// other kinds of failure (the call reports "exists", "too many open files", "no space"; a resource that stays
		// exhausted: every call from the k-th on fails): massive mode errs iff simple mode errs; base schedules only
		for j := 1; j <= 8; j++ {
			for _, kind := range []struct {
				errno   string
				persist bool
			}{{"EEXIST", false}, {"EMFILE", false}, {"EMFILE", true}, {"ENOSPC", true}, {"EACCES", false}} {
				j, kind := j, kind
				add(docs[0], "mkdir", 0, w2, func(s *c10Spec) {
					s.name = fmt.Sprintf("two/fsfail%d-%s-persist=%v", j, kind.errno, kind.persist)
					s.fsFail, s.fsErrno, s.fsPersist = j, kind.errno, kind.persist
					s.exts = []string{"e"}
				})
			}
		}
		// mkdir where a root exists beforehand: simple mode creates nothing at all
		add(docs[0], "mkdir", k1, w2, func(s *c10Spec) { s.name = "two-second-exists"; s.pre = map[string]byte{"c": 'd'} })
		add(docs[1], "mkdir", k1, w3, func(s *c10Spec) { s.name = "three-last-exists"; s.pre = map[string]byte{"e": 'f'} })
		// the From-Root family with the massive option, with options that are rarely combined
		{
			tree := rootOf("- r\n  - a.go\n    - b\n  - c.go\n  - d\n    - e.go\n")
			bad := rootOf("- r\n  - a\n    - x/y\n")
			fm := model.Fmt4{LastDirect: "\\____", LastIndirect: "  ", MidDirect: "|-", MidIndirect: "|    "}
			for _, op := range []string{"root:out-text", "root:out-json", "root:out-yaml", "root:out-toml", "root:walk", "root:mkdir", "root:mkdir-dry", "root:verify"} {
				d := NewDrv(op, "")
				d.Root, d.Exts = tree, []string{".go"}
				if op == "root:verify" {
					d.Pre, d.Strict = map[string]byte{"r/a.go/b": 'd', "r/c.go": 'f', "r/d/e.go": 'f', "r/zz": 'd'}, true
				}
				out = append(out, c10RootScenario("valid/"+op, d, k1, pols))
				if op == "root:out-text" || op == "root:walk" || op == "root:mkdir-dry" {
					f := NewDrv(op, "")
					f.Root, f.Exts, f.Fmt = tree, []string{".go"}, &fm
					out = append(out, c10RootScenario("fmt/"+op, f, k1, pols))
				}
				b := NewDrv(op, "")
				b.Root = bad
				out = append(out, c10RootScenario("invalid-name/"+op, b, k1, pols))
			}
		}
		// option matrix: every subset of {JSON, dry run, extensions, custom branches} in this order, plus a few more orders
		{
			names := []string{"json", "dry", "exts", "fmt"}
			var combos []string
			for bits := 0; bits < 16; bits++ {
				var o []string
				for i, n := range names {
					if bits&(1<<i) != 0 {
						o = append(o, n)
					}
				}
				combos = append(combos, strings.Join(o, ","))
			}
			combos = append(combos, "fmt,exts,dry,json", "yaml,dry", "nil,fmt,nil", "yaml,json", "dry,noiter")
			for _, cmb := range combos {
				cmb := cmb
				d := NewDrv("out-text", "- a\n  - b\n  - c\n    - d\n- e\n  - b\n")
				d.ExtraOpts = cmb
				var ref *DrvRun
				out = append(out, &Scenario{Name: "c10/matrix/" + cmb, Prop: "C10", Workers: w2, Bound: 1, Policies: pols[:2],
					Prepare: func() {
						ref = nil
						func() {
							defer func() { recover() }()
							ref = runSimple(*d)
						}()
					},
					New: func() Exec { return &c10MatrixExec{DrvRun: d.New(), ref: ref} }})
			}
		}
		// strict verify with an extra entry in one root
		add(docs[0], "verify", k1, w2, func(s *c10Spec) {
			s.name = "two-strict-extra"
			s.strict = true
			s.pre = map[string]byte{"a/b": 'd', "c/d": 'd', "c/e": 'd', "c/zzz": 'd'}
		})
		add(docs[0], "verify", k1, w2, func(s *c10Spec) {
			s.name = "two-ok-strict"
			s.strict = true
			s.pre = map[string]byte{"a/b": 'd', "c/d": 'd', "c/e": 'd'}
		})
		return out
	}
}
