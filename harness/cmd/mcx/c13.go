//go:build mcbuild

package main

import (
	"bytes"
	"fmt"
	"github.com/ddddddO/gtree/verifmc/mctx"
	"os"
	"path/filepath"
	"sort"
	"strings"
	"verifharness/fsx"

	"github.com/ddddddO/gtree"
	mc "github.com/ddddddO/gtree/verifmc"
	"github.com/fatih/color"

	"verifharness/model"
	"verifharness/sut"
)

// ---- C13 (concurrent clause): independent calls / independent trees in two threads give the results
// they give when run alone, under every schedule within the bound, and share no unsynchronised memory.

// tstep is one step of a per-thread script.
type tstep struct {
	K    string // N A T W J D (From-Root on the thread's own tree) | M (OutputFromMarkdown doc) | X (WalkFromMarkdown doc) | Y (Output JSON doc)
	Node int
	Name string
	Doc  string
}

type c13Thread struct {
	script []tstep
	got    []string
	want   []string
	// shared: option values that BOTH threads pass to their calls (options are the caller's values: building them
	// once and using them for many calls, from any goroutine, is ordinary use)
	shared []gtree.Option
	target string // for the K step: where this thread's tree is made
}

func (t *c13Thread) run() {
	var real []*gtree.Node
	var mnodes []*model.Node
	obs := func(got, want string) {
		t.got = append(t.got, got)
		t.want = append(t.want, want)
	}
	for _, s := range t.script {
		switch s.K {
		case "N":
			real = []*gtree.Node{gtree.NewRoot(s.Name)}
			mnodes = []*model.Node{{Name: s.Name}}
		case "A":
			mp := mnodes[s.Node]
			g := real[s.Node].Add(s.Name)
			dup := false
			for _, k := range mp.Kids {
				if k.Name == s.Name {
					dup = true
				}
			}
			if !dup {
				mk := &model.Node{Name: s.Name}
				mp.Kids = append(mp.Kids, mk)
				real = append(real, g)
				mnodes = append(mnodes, mk)
			}
		case "T":
			var buf bytes.Buffer
			err := gtree.OutputFromRoot(&buf, real[0])
			obs(fmt.Sprintf("%q %v", buf.String(), err), fmt.Sprintf("%q <nil>", model.RenderRoot(model.MergeNode(mnodes[0]), model.DefaultFmt)))
		case "W":
			var rows []string
			err := gtree.WalkFromRoot(real[0], func(wn *gtree.WalkerNode) error { rows = append(rows, wn.Row()+"|"+wn.Path()); return nil })
			var wr []string
			for _, r := range model.Rows(model.MergeNode(mnodes[0]), model.DefaultFmt) {
				wr = append(wr, r.Line+"|"+r.Path)
			}
			obs(fmt.Sprintf("%q %v", rows, err), fmt.Sprintf("%q <nil>", wr))
		case "D":
			var buf bytes.Buffer
			// each thread prints its dry-run report into its own writer (color.Output is a process-wide variable the
			// caller sets; the two threads use the route that takes a writer where they can)
			err := gtree.OutputFromRoot(&buf, real[0], gtree.WithDryRun(), gtree.WithEncodeJSON())
			_ = err
			var buf2 bytes.Buffer
			err2 := gtree.OutputFromMarkdown(&buf2, strings.NewReader(enumSpell(mnodes[0])), gtree.WithDryRun(), gtree.WithFileExtensions([]string{"b"}), gtree.WithNoUseIterOfSimpleOutput())
			m := model.MergeNode(mnodes[0])
			dn, fn := model.Counts(m, []string{"b"})
			obs(fmt.Sprintf("%q %v", model.NormSummary(buf2.String()), err2), fmt.Sprintf("%q <nil>", model.NormSummary(model.RenderRoot(m, model.DefaultFmt)+fmt.Sprintf("\n%d directories, %d files\n", dn, fn))))
		case "J":
			var buf bytes.Buffer
			err := gtree.OutputFromRoot(&buf, real[0], gtree.WithEncodeJSON())
			obs(fmt.Sprintf("%d bytes %v", buf.Len(), err), fmt.Sprintf("%d bytes <nil>", len(jsonOf(model.MergeNode(mnodes[0])))+1))
		case "S":
			// OutputFromMarkdown with the shared option values (the massive option among them: roots may come in any order)
			var buf bytes.Buffer
			err := gtree.OutputFromMarkdown(&buf, strings.NewReader(s.Doc), t.shared...)
			sp := model.ParseSpec(s.Doc)
			obs(fmt.Sprintf("%q %v", sortBlocks(buf.String()), err), fmt.Sprintf("%q <nil>", sortBlocks(model.Render(model.Merge(sp.Forest), model.DefaultFmt))))
		case "SD":
			// a massive dry run of this thread's own document (the other thread does the same with another document)
			var buf bytes.Buffer
			err := gtree.OutputFromMarkdown(&buf, strings.NewReader(s.Doc), gtree.WithMassive(nil), gtree.WithDryRun(), gtree.WithFileExtensions([]string{"b"}))
			sp := model.ParseSpec(s.Doc)
			want := ""
			for _, r := range model.Merge(sp.Forest) {
				d, f := model.Counts(r, []string{"b"})
				want += model.RenderRoot(r, model.DefaultFmt) + fmt.Sprintf("\n%d directories, %d files\n", d, f)
			}
			obs(fmt.Sprintf("%q %v", sortDryBlocks(model.NormSummary(buf.String())), err), fmt.Sprintf("%q <nil>", sortDryBlocks(model.NormSummary(want))))
		case "R":
			var buf bytes.Buffer
			err := gtree.OutputFromRoot(&buf, real[0], t.shared...)
			obs(fmt.Sprintf("%q %v", buf.String(), err), fmt.Sprintf("%q <nil>", model.RenderRoot(model.MergeNode(mnodes[0]), model.DefaultFmt)))
		case "K":
			// a real Mkdir of this thread's own tree below a directory that does not exist yet (the other thread makes
			// ITS tree, with another root name, below the same directory at the same time)
			err := gtree.MkdirFromRoot(real[0], gtree.WithTargetDir(t.target), gtree.WithFileExtensions([]string{".go"}))
			made := "made"
			if _, serr := os.Stat(filepath.Join(t.target, mnodes[0].Name)); serr != nil {
				made = "not made"
			}
			obs(fmt.Sprintf("%v %s", err, made), "<nil> made")
		case "M":
			var buf bytes.Buffer
			err := gtree.OutputFromMarkdown(&buf, strings.NewReader(s.Doc))
			sp := model.ParseSpec(s.Doc)
			obs(fmt.Sprintf("%q %v", buf.String(), err), fmt.Sprintf("%q <nil>", model.Render(model.Merge(sp.Forest), model.DefaultFmt)))
		case "Y":
			var buf bytes.Buffer
			err := gtree.OutputFromMarkdown(&buf, strings.NewReader(s.Doc), gtree.WithDryRun(), gtree.WithFileExtensions([]string{"b"}))
			sp := model.ParseSpec(s.Doc)
			want := ""
			for _, r := range model.Merge(sp.Forest) {
				d, f := model.Counts(r, []string{"b"})
				want += model.RenderRoot(r, model.DefaultFmt) + fmt.Sprintf("\n%d directories, %d files\n", d, f)
			}
			obs(fmt.Sprintf("%q %v", model.NormSummary(buf.String()), err), fmt.Sprintf("%q <nil>", model.NormSummary(want)))
		case "X":
			var rows []string
			err := gtree.WalkFromMarkdown(strings.NewReader(s.Doc), func(wn *gtree.WalkerNode) error { rows = append(rows, wn.Row()); return nil })
			sp := model.ParseSpec(s.Doc)
			var wr []string
			for _, r := range model.Merge(sp.Forest) {
				for _, row := range model.Rows(r, model.DefaultFmt) {
					wr = append(wr, row.Line)
				}
			}
			obs(fmt.Sprintf("%q %v", rows, err), fmt.Sprintf("%q <nil>", wr))
		}
	}
}

// sortDryBlocks: a (normalised) dry-run report as a sorted list of per-root blocks (a block ends with its "<d,f>" line).
func sortDryBlocks(rep string) string {
	var blocks []string
	cur := ""
	for _, l := range strings.SplitAfter(rep, "\n") {
		cur += l
		if strings.HasPrefix(l, "<") {
			blocks = append(blocks, cur)
			cur = ""
		}
	}
	if cur != "" {
		blocks = append(blocks, cur)
	}
	sort.Strings(blocks)
	return strings.Join(blocks, "")
}

// sortBlocks: the text output as a sorted list of per-root blocks.
func sortBlocks(out string) string {
	var blocks []string
	for _, l := range strings.SplitAfter(out, "\n") {
		if l == "" {
			continue
		}
		if len(blocks) > 0 && (strings.HasPrefix(l, "├") || strings.HasPrefix(l, "└") || strings.HasPrefix(l, "│") || strings.HasPrefix(l, " ")) {
			blocks[len(blocks)-1] += l
		} else {
			blocks = append(blocks, l)
		}
	}
	sort.Strings(blocks)
	return strings.Join(blocks, "")
}

func enumSpell(n *model.Node) string {
	var sb strings.Builder
	var rec func(x *model.Node, lv int)
	rec = func(x *model.Node, lv int) {
		sb.WriteString(strings.Repeat("  ", lv) + "- " + x.Name + "\n")
		for _, k := range x.Kids {
			rec(k, lv+1)
		}
	}
	rec(n, 0)
	return sb.String()
}

func jsonOf(n *model.Node) string {
	s := fmt.Sprintf(`{"value":%q,"children":`, n.Name)
	if len(n.Kids) == 0 {
		return s + "null}"
	}
	s += "["
	for i, k := range n.Kids {
		if i > 0 {
			s += ","
		}
		s += jsonOf(k)
	}
	return s + "]}"
}

type c13Exec struct {
	a, b *c13Thread
	name string
	jail *fsx.Jail
}

func (e *c13Exec) Body() {
	color.NoColor = true
	done := mc.NewChan[int](2)
	mc.Go(func() { e.a.run(); done.Send(1) })
	mc.Go(func() { e.b.run(); done.Send(2) })
	done.Recv1()
	done.Recv1()
}

func (e *c13Exec) Outcome() string {
	return fmt.Sprintf("a=%v b=%v", e.a.got, e.b.got)
}

func (e *c13Exec) Check(o *mc.Outcome) []Viol {
	if e.jail != nil {
		defer e.jail.Remove()
	}
	vs := endViolations("C13", o)
	vs = append(vs, raceViolations("C13", o)...)
	if o.End() != "complete" {
		return vs
	}
	for ti, t := range []*c13Thread{e.a, e.b} {
		for i := range t.got {
			if i < len(t.want) && t.got[i] != t.want[i] {
				vs = append(vs, Viol{"C13|concurrent-use-changes-result", fmt.Sprintf("scenario %s thread %d observation %d:\n got %s\nwant %s (what the same calls give when run alone)", e.name, ti, i, t.got[i], t.want[i])})
				break
			}
		}
	}
	return vs
}

func init() {
	scenarioGens["C13"] = func(tier string) []*Scenario {
		k := 2
		if tier == "thorough" {
			k = 3
		}
		N := func(n string) tstep { return tstep{K: "N", Name: n} }
		A := func(i int, n string) tstep { return tstep{K: "A", Node: i, Name: n} }
		O := func(k string) tstep { return tstep{K: k} }
		M := func(k, doc string) tstep { return tstep{K: k, Doc: doc} }
		scripts := map[string][]tstep{
			"build-out":    {N("r"), A(0, "a"), A(0, "b"), O("T")},
			"out-add-out":  {N("r"), A(0, "a"), O("T"), A(0, "b"), O("T")},
			"deep-walk":    {N("r"), A(0, "a"), A(1, "b"), A(0, "c"), O("W"), O("T")},
			"json-out":     {N("q"), A(0, "a"), O("J"), A(1, "a"), O("T")},
			"md-text":      {M("M", "- x\n  - y\n  - z\n    - w\n")},
			"md-text-2":    {M("M", "- p\n    - q\n        - r\n    - s\n- t\n")},
			"md-walk":      {M("X", "* x\n\t* y\n\t\t* z\n\t* w\n")},
			"md-dry":       {M("Y", "- x\n  - b\n  - c\n")},
			"md-heading":   {M("M", "# h\n- a\n  - b\n# i\n- c\n")},
			"md-twice":     {M("M", "- x\n  - y\n"), M("M", "- x\n    - y\n    - z\n")},
			"root-then-md": {N("r"), A(0, "a"), O("T"), M("M", "- x\n  - y\n")},
			"dry-spread":   {N("r"), A(0, "b"), A(0, "a"), A(2, "b"), O("D")},
		}
		pairs := [][2]string{
			{"build-out", "build-out"}, {"out-add-out", "out-add-out"}, {"out-add-out", "deep-walk"}, {"deep-walk", "json-out"},
			{"build-out", "md-text"}, {"md-text", "md-text-2"}, {"md-text", "md-walk"}, {"md-dry", "md-text-2"}, {"md-heading", "md-text"},
			{"md-twice", "md-twice"}, {"root-then-md", "out-add-out"}, {"md-dry", "md-dry"}, {"md-heading", "md-heading"}, {"md-walk", "root-then-md"},
			{"dry-spread", "md-dry"}, {"dry-spread", "dry-spread"}, {"dry-spread", "build-out"},
		}
		var out []*Scenario
		// two threads that pass the SAME option values to their calls
		sharedSets := map[string]func() []gtree.Option{
			"massive-nil":     func() []gtree.Option { return []gtree.Option{gtree.WithMassive(nil)} },
			"massive-ctx":     func() []gtree.Option { return []gtree.Option{gtree.WithMassive(mctx.Background())} },
			"branches":        func() []gtree.Option { return sut.FmtOpts(model.DefaultFmt) },
			"nil-and-massive": func() []gtree.Option { return []gtree.Option{nil, gtree.WithMassive(nil), nil} },
		}
		for sn, mk := range sharedSets {
			for _, sc := range [][2][]tstep{
				{{M("S", "- x\n  - y\n- z\n")}, {M("S", "- p\n- q\n  - r\n")}},
				{{N("r"), A(0, "a"), O("R")}, {M("S", "- x\n  - y\n")}},
				{{N("r"), A(0, "a"), O("R")}, {N("s"), A(0, "b"), A(0, "c"), O("R")}},
			} {
				sc, mk := sc, mk
				name := fmt.Sprintf("c13/shared-options/%s/%s||%s", sn, sc[0][len(sc[0])-1].K, sc[1][len(sc[1])-1].K)
				out = append(out, &Scenario{
					Name: name, Prop: "C13", Bound: 1, Workers: w1, Policies: []int{0, 1, 2}, DivergenceIsViolation: "C13|state-survives-between-independent-calls",
					New: func() Exec {
						sh := mk()
						return &c13Exec{a: &c13Thread{script: sc[0], shared: sh}, b: &c13Thread{script: sc[1], shared: sh}, name: name}
					},
				})
			}
		}
		// two threads, each with a massive dry run of its own document (several roots, files and directories)
		for i, sc := range [][2][]tstep{
			{{M("SD", "- x\n  - b\n  - c\n- y\n  - b\n")}, {M("SD", "- p\n  - q\n    - b\n- r\n")}},
			{{M("SD", "- x\n  - b\n")}, {M("SD", "- p\n  - q\n  - b\n  - b2\n")}},
		} {
			sc := sc
			name := fmt.Sprintf("c13/massive-dry-runs/%d", i)
			out = append(out, &Scenario{
				Name: name, Prop: "C13", Bound: 1, Workers: w1, Policies: []int{0, 1, 2}, DivergenceIsViolation: "C13|state-survives-between-independent-calls",
				New: func() Exec {
					return &c13Exec{a: &c13Thread{script: sc[0]}, b: &c13Thread{script: sc[1]}, name: name}
				},
			})
		}
		// two threads that make their own trees (different root names) below the same, not yet existing, directory
		for _, sc := range [][2][]tstep{
			{{N("r"), A(0, "a"), A(1, "x.go"), O("K")}, {N("s"), A(0, "b"), O("K")}},
			{{N("r"), O("K")}, {N("s.go"), O("K")}},
		} {
			sc := sc
			name := fmt.Sprintf("c13/mkdir-below-one-missing-directory/%d||%d", len(sc[0]), len(sc[1]))
			out = append(out, &Scenario{
				Name: name, Prop: "C13", Bound: k, Policies: []int{0, 1, 2},
				New: func() Exec {
					j := fsx.NewJail("c13mc")
					tg := filepath.Join(j.Target, "not", "yet", "there")
					return &c13Exec{a: &c13Thread{script: sc[0], target: tg}, b: &c13Thread{script: sc[1], target: tg}, name: name, jail: j}
				},
			})
		}
		for _, p := range pairs {
			p := p
			name := "c13/" + p[0] + "||" + p[1]
			out = append(out, &Scenario{
				Name: name, Prop: "C13", Bound: k, Policies: []int{0, 1, 2}, DivergenceIsViolation: "C13|state-survives-between-independent-calls",
				New: func() Exec {
					return &c13Exec{a: &c13Thread{script: scripts[p[0]]}, b: &c13Thread{script: scripts[p[1]]}, name: name}
				},
			})
		}
		return out
	}
	_ = sut.Guard
}
