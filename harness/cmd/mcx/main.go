//go:build mcbuild

// mcx: stateless model checking of the real gtree pipeline code (rewritten onto
// the controlled runtime by mcgen): deviation-bounded depth-first exploration
// of schedules, checked per execution.
package main

import (
	"encoding/binary"
	"encoding/json"
	"flag"
	"fmt"
	"os"
	"sort"
	"strings"
	"time"

	"github.com/ddddddO/gtree"
	mc "github.com/ddddddO/gtree/verifmc"

	"verifharness/rep"
)

// Viol is one violated oracle clause of one execution.
type Viol struct {
	Sig    string
	Detail string
}

// Exec is the per-execution state of a scenario: Body runs as thread 0 under the
// scheduler, Check judges the finished execution.
type Exec interface {
	Body()
	Check(o *mc.Outcome) []Viol
	Outcome() string // short observable result, for the distinct-outcome (vacuity) count
}

type Scenario struct {
	Name     string
	Prop     string
	Workers  map[string]int
	Bound    int   // deviation bound for this tier
	Policies []int // base policies to explore around
	New      func() Exec
	Prepare  func() // optional, once before exploring (e.g. computing the simple-mode reference)
	Cleanup  func()
	MaxExecs int64
	// Preempt selects the second explorer E2: preemption-bounded search (switching away from a thread that could
	// continue costs 1, every other choice is free) with visited-state pruning on the canonical state key.
	// Bound is then the preemption bound. Used for small drivers (one worker per stage) in addition to E1.
	Preempt bool
	// DivergenceIsViolation: signature under which a replay divergence is reported instead of aborting (C13 only)
	DivergenceIsViolation string
}

var scenarioGens = map[string]func(tier string) []*Scenario{}

// scenarioByName rebuilds scenarios that are generated on the fly (replay support), keyed by name prefix.
var scenarioByName = map[string]func(name string) *Scenario{}

// freeParts run sequential code of the rewritten build outside the scheduler (key: "<prop>/<part>").
var freeParts = map[string]func(c *rep.Ctx){}

type explorer struct {
	sampled  bool
	visited  map[uint64]int // E2: state key -> smallest cost at which it was expanded
	pruned   int64
	noShard  bool // explore every level-1 subtree in this process (the caller shards over scenarios instead)
	c        *rep.Ctx
	states   map[uint64]struct{}
	outcomes map[string]int64
}

func applyWorkers(sc *Scenario) {
	w := map[string]int{"*": 2}
	for k, v := range sc.Workers {
		w[k] = v
	}
	gtree.VerifSetWorkers(w)
}

func runOnce(sc *Scenario, prefix []int, policy int) (Exec, mc.Outcome) {
	ex := sc.New()
	out := mc.Run(prefix, policy, 100000, ex.Body)
	return ex, out
}

// fullCheck = the scenario's own oracle plus the race clause: every MC verdict rests on data-race freedom
// (sequentially consistent exploration is complete only for race-free executions), so a reported race is a
// violation of whichever property is being explored.
func fullCheck(sc *Scenario, ex Exec, out *mc.Outcome) []Viol {
	vs := ex.Check(out)
	have := map[string]bool{}
	for _, v := range vs {
		have[v.Sig] = true
	}
	for _, v := range raceViolations(sc.Prop, out) {
		if !have[v.Sig] {
			vs = append(vs, v)
		}
	}
	return vs
}

func violKey(vs []Viol) string {
	var s []string
	for _, v := range vs {
		s = append(s, v.Sig)
	}
	sort.Strings(s)
	return strings.Join(s, ";")
}

type mcReplay struct {
	Kind     string         `json:"kind"`
	Prop     string         `json:"prop"`
	Scenario string         `json:"scenario"`
	Policy   int            `json:"policy"`
	Choices  []int          `json:"choices"`
	Workers  map[string]int `json:"workers"`
}

func (e *explorer) explore(sc *Scenario, policy int) {
	c := e.c
	applyWorkers(sc)
	if sc.Prepare != nil {
		sc.Prepare()
	}
	if sc.Cleanup != nil {
		defer sc.Cleanup()
	}
	type item struct {
		prefix []int
		cost   int
	}
	stack := []item{{nil, 0}}
	if sc.Preempt {
		e.visited = map[uint64]int{} // per scenario and policy
	}
	var execs int64
	level1 := 0
	for len(stack) > 0 {
		if c.Expired() {
			return
		}
		if sc.MaxExecs > 0 && execs >= sc.MaxExecs {
			c.Cap(fmt.Sprintf("scenario %s: execution cap %d reached", sc.Name, sc.MaxExecs))
			return
		}
		it := stack[len(stack)-1]
		stack = stack[:len(stack)-1]
		ex, out := runOnce(sc, it.prefix, policy)
		execs++
		if out.Diverged != "" {
			if sc.DivergenceIsViolation != "" {
				// the harness and the runtime are deterministic: the same choice list can only behave differently
				// if the code under test keeps state from one execution (= earlier, unrelated calls) to the next
				c.Eval()
				c.Violation(sc.DivergenceIsViolation, fmt.Sprintf("scenario=%s: replaying the choice list %v diverged (%s): library state survives between independent calls", sc.Name, it.prefix, out.Diverged), len(it.prefix), mcReplay{"mc", sc.Prop, sc.Name, policy, it.prefix, sc.Workers})
				continue
			}
			fmt.Fprintf(os.Stderr, "REPLAY-DIVERGENCE scenario=%s prefix=%v: %s\n", sc.Name, it.prefix, out.Diverged)
			os.Exit(3)
		}
		counted := len(it.prefix) > 0 || c.Shard == 0 || e.noShard
		if counted {
			c.Eval()
			c.Trace()
			c.Trans(len(out.Points))
			for _, p := range out.Points {
				if p.Key != 0 {
					if _, ok := e.states[p.Key]; !ok {
						e.states[p.Key] = struct{}{}
					}
				}
			}
			if !e.sampled && c.Shard == 0 && len(out.Points) > 0 {
				e.sampled = true
				c.Sample(map[string]any{"scenario": sc.Name, "policy": policy, "one_explored_execution": traceString(&out), "ended": out.End(), "observed": ex.Outcome()})
			}
			e.outcomes[sc.Name+"|"+out.End()+"|"+ex.Outcome()]++
			c.Inc("end_" + out.End())
			if out.Threads > int(c.R.Extra["max_threads"]) {
				c.R.Extra["max_threads"] = int64(out.Threads)
			}
			if len(out.Points) > int(c.R.Extra["max_points"]) {
				c.R.Extra["max_points"] = int64(len(out.Points))
			}
			vs := fullCheck(sc, ex, &out)
			if len(vs) > 0 && os.Getenv("MC_SCENARIO_STATS") != "" {
				c.Inc("viol_in:" + sc.Name)
			}
			if out.Threads > int(c.R.Extra["threads:"+sc.Name]) && os.Getenv("MC_SCENARIO_STATS") != "" {
				c.R.Extra["threads:"+sc.Name] = int64(out.Threads)
			}
			if len(vs) > 0 {
				// re-run 5x: the same choice list must give the same verdict
				key := violKey(vs)
				choices := make([]int, len(out.Points))
				for i, p := range out.Points {
					choices[i] = p.Chosen
				}
				reruns := 5
				if c.R.ViolCount[vs[0].Sig] >= 2 {
					reruns = 0 // the first two cases of a signature are re-executed 5x; later ones are counted
				}
				for k := 0; k < reruns; k++ {
					ex2, out2 := runOnce(sc, choices, policy)
					if k2 := violKey(fullCheck(sc, ex2, &out2)); k2 != key {
						fmt.Fprintf(os.Stderr, "NONDETERMINISTIC scenario=%s choices=%v: %q vs %q\n", sc.Name, choices, key, k2)
						os.Exit(3)
					}
				}
				for _, v := range vs {
					dev := 0
					for _, ch := range choices {
						if ch != 0 {
							dev++
						}
					}
					c.Violation(v.Sig, fmt.Sprintf("scenario=%s policy=%d deviations=%d\n%s\ntrace: %s", sc.Name, policy, dev, v.Detail, traceString(&out)),
						dev*1000+len(choices), mcReplay{"mc", sc.Prop, sc.Name, policy, choices, sc.Workers})
				}
			}
		}
		if sc.Preempt {
			// E2: walk the new part of this execution front to back; stop at the first state already expanded at no
			// greater cost (everything behind it has been explored from there)
			cost := it.cost
			for i := len(it.prefix); i < len(out.Points); i++ {
				p := out.Points[i]
				if prev, ok := e.visited[p.Key]; ok && prev <= cost {
					e.pruned++
					break
				}
				e.visited[p.Key] = cost
				for alt := 0; alt < p.N; alt++ {
					if alt == p.Chosen {
						continue
					}
					ac := 0
					if p.NCur > 0 && alt >= p.NCur {
						ac = 1 // the running thread could have continued: this is a preemption
					}
					if cost+ac > sc.Bound {
						continue
					}
					if len(it.prefix) == 0 && !e.noShard {
						mine := level1%c.NShards == c.Shard
						level1++
						if !mine {
							continue
						}
					}
					np := make([]int, i+1)
					for j := 0; j < i; j++ {
						np[j] = out.Points[j].Chosen
					}
					np[i] = alt
					stack = append(stack, item{np, cost + ac})
				}
				if p.NCur > 0 && p.Chosen >= p.NCur {
					cost++
				}
			}
			continue
		}
		// children: one more deviation at any later point
		if it.cost >= sc.Bound {
			continue
		}
		for i := len(out.Points) - 1; i >= len(it.prefix); i-- {
			p := out.Points[i]
			for alt := p.N - 1; alt >= 1; alt-- {
				if len(it.prefix) == 0 {
					// level-1 subtrees are dealt round-robin to the shards
					mine := level1%c.NShards == c.Shard || e.noShard
					level1++
					if !mine {
						continue
					}
				}
				np := make([]int, i+1)
				for j := 0; j < i; j++ {
					np[j] = out.Points[j].Chosen
				}
				np[i] = alt
				stack = append(stack, item{np, it.cost + 1})
			}
		}
	}
}

func tierQuick(t string) bool { return t != "thorough" }

func traceString(o *mc.Outcome) string {
	var sb strings.Builder
	last := -1
	for i, p := range o.Points {
		if i > 400 {
			sb.WriteString(" …")
			break
		}
		if p.Tid != last {
			fmt.Fprintf(&sb, " | t%d:", p.Tid)
			last = p.Tid
		}
		mark := ""
		if p.Chosen != 0 {
			mark = fmt.Sprintf("#%d/%d", p.Chosen, p.N)
		}
		fmt.Fprintf(&sb, " %s%s", p.What, mark)
	}
	return sb.String()
}

func main() {
	prop := flag.String("prop", "", "property id")
	tier := flag.String("tier", "quick", "")
	shard := flag.Int("shard", 0, "")
	nshards := flag.Int("nshards", 1, "")
	out := flag.String("out", "-", "")
	seed := flag.Int64("seed", 0, "")
	deadline := flag.Int("deadline", 0, "")
	replay := flag.String("replay", "", "")
	only := flag.String("only", "", "substring filter on scenario names (debugging)")
	list := flag.Bool("list", false, "list scenarios")
	part := flag.String("part", "mc", "")
	selftest := flag.Bool("selftest", false, "run the controlled runtime's own unit tests")
	flag.Parse()
	if *selftest {
		os.Exit(runSelfTests())
	}
	mc.MemOn = true
	if *replay != "" {
		os.Exit(doReplay(*replay))
	}
	if fp, ok := freeParts[*prop+"/"+*part]; ok {
		// parts that run the rewritten build free (no scheduler): fault enumeration over the mos / io seams
		c := rep.New(*prop, *part, *tier, *shard, *nshards, *seed, *deadline)
		fp(c)
		if err := c.Write(*out); err != nil {
			fmt.Fprintln(os.Stderr, err)
			os.Exit(3)
		}
		return
	}
	gen, ok := scenarioGens[*prop]
	if !ok {
		fmt.Fprintln(os.Stderr, "unknown property", *prop)
		os.Exit(3)
	}
	c := rep.New(*prop, *part, *tier, *shard, *nshards, *seed, *deadline)
	e := &explorer{c: c, states: map[uint64]struct{}{}, outcomes: map[string]int64{}}
	scs := gen(*tier)
	start := time.Now()
	// iterate the bound: everything with <= 1 deviation first, then <= 2, ... so that an internal deadline only ever
	// cuts the deepest level, and the bound completed for ALL scenarios is reported
	maxB := 0
	for _, sc := range scs {
		if sc.Bound > maxB {
			maxB = sc.Bound
		}
	}
	completed := -1
	for b := 1; b <= maxB || b == 1; b++ {
		for _, sc := range scs {
			if *only != "" && !strings.Contains(sc.Name, *only) {
				continue
			}
			if *list {
				if b == 1 {
					fmt.Println(sc.Name, "bound", sc.Bound, "policies", sc.Policies)
				}
				continue
			}
			full := sc.Bound
			run := *sc
			if tierQuick(*tier) {
				if b > 1 {
					continue // quick: one round, straight to the scenario's own bound
				}
			} else {
				// thorough: level by level; a scenario takes part in round b while b <= its own bound (bound 0 runs once)
				if full < b && !(b == 1 && full == 0) {
					continue
				}
				if full > b {
					run.Bound = b
				}
			}
			pols := run.Policies
			if len(pols) == 0 {
				pols = []int{0}
			}
			for _, pol := range pols {
				e.explore(&run, pol)
			}
			if c.Shard == 0 && (run.Bound == full) {
				c.Sample(map[string]any{"scenario": sc.Name, "bound": full, "policies": pols})
				c.Inc("scenarios")
			}
		}
		if c.Expired() {
			break
		}
		completed = b
		if tierQuick(*tier) {
			break
		}
	}
	if !tierQuick(*tier) {
		c.Bound("deviation_bound_completed_for_all_scenarios", fmt.Sprint(completed))
	}
	_ = start
	c.R.States = int64(len(e.states))
	c.R.Nontrivial = int64(len(e.outcomes))
	c.R.Extra["distinct_outcomes"] = int64(len(e.outcomes))
	if sf := os.Getenv("MC_STATES_OUT"); sf != "" {
		buf := make([]byte, 0, 8*len(e.states))
		for k := range e.states {
			buf = binary.LittleEndian.AppendUint64(buf, k)
		}
		os.WriteFile(fmt.Sprintf("%s.%d", sf, *shard), buf, 0o644)
	}
	if os.Getenv("MC_PRINT_OUTCOMES") != "" {
		var ks []string
		for k := range e.outcomes {
			ks = append(ks, k)
		}
		sort.Strings(ks)
		for _, k := range ks {
			fmt.Fprintf(os.Stderr, "%8d  %s\n", e.outcomes[k], k)
		}
	}
	if err := c.Write(*out); err != nil {
		fmt.Fprintln(os.Stderr, err)
		os.Exit(3)
	}
}

func doReplay(path string) int {
	b, err := os.ReadFile(path)
	if err != nil {
		fmt.Fprintln(os.Stderr, err)
		return 3
	}
	var env struct {
		Property  string   `json:"property"`
		Signature string   `json:"signature"`
		Detail    string   `json:"detail"`
		Replay    mcReplay `json:"replay"`
	}
	if err := json.Unmarshal(b, &env); err != nil {
		fmt.Fprintln(os.Stderr, err)
		return 3
	}
	r := env.Replay
	gen, ok := scenarioGens[r.Prop]
	if !ok {
		gen = func(string) []*Scenario { return nil }
	}
	var sc *Scenario
	for _, t := range []string{"quick", "thorough"} {
		for _, s := range gen(t) {
			if s.Name == r.Scenario {
				sc = s
			}
		}
	}
	if sc == nil {
		for prefix, mk := range scenarioByName {
			if strings.HasPrefix(r.Scenario, prefix) {
				sc = mk(r.Scenario)
			}
		}
	}
	if sc == nil {
		fmt.Println("scenario not found:", r.Scenario)
		return 3
	}
	sc.Workers = r.Workers
	applyWorkers(sc)
	if sc.Prepare != nil {
		sc.Prepare()
	}
	if sc.Cleanup != nil {
		defer sc.Cleanup()
	}
	ex1, o1 := runOnce(sc, r.Choices, r.Policy)
	ex2, o2 := runOnce(sc, r.Choices, r.Policy)
	if o1.Diverged != "" {
		fmt.Println("replay diverged (the code changed since the schedule was recorded):", o1.Diverged)
		return 3
	}
	t1, t2 := traceString(&o1), traceString(&o2)
	if t1 != t2 {
		fmt.Println("NONDETERMINISTIC replay: two runs of the same choice list differ")
		return 3
	}
	fmt.Printf("scenario %s policy %d, %d points, ended: %s\ntrace:%s\noutcome: %s\n", sc.Name, r.Policy, len(o1.Points), o1.End(), t1, ex1.Outcome())
	for _, b := range o1.Blocked {
		fmt.Println("  blocked:", b)
	}
	if o1.Panic != "" {
		fmt.Println("  panic:", o1.Panic)
	}
	v1, v2 := fullCheck(sc, ex1, &o1), fullCheck(sc, ex2, &o2)
	if violKey(v1) != violKey(v2) {
		fmt.Println("NONDETERMINISTIC verdict")
		return 3
	}
	for _, v := range v1 {
		fmt.Printf("violated: %s\n  %s\n", v.Sig, v.Detail)
	}
	if len(v1) > 0 {
		fmt.Println("REPRODUCED")
		return 1
	}
	fmt.Println("not reproduced (property holds on this schedule now)")
	return 0
}
