//go:build mcbuild

package main

import (
	"errors"
	"fmt"
	"regexp"
	"sort"
	"strings"

	mc "github.com/ddddddO/gtree/verifmc"
	"github.com/ddddddO/gtree/verifmc/mctx"

	"verifharness/model"
)

// ---- C11: every massive-mode call returns, leaves no thread behind, reports cancellation, has no data race

type c11Exec struct {
	*DrvRun
	full       string // complete output of the operation without faults (for the cancel clause); "" if unknown
	cleanInput bool   // the simple-mode run of the same driver without cancellation succeeds: only the cancel can fail
}

func (e *c11Exec) Outcome() string {
	return fmt.Sprintf("err=%v out=%s rows=%d cancelSeen=%v", e.Err != nil, short(e.Out), len(e.Rows), e.CancelSeen)
}

var reHex = regexp.MustCompile(`0x[0-9a-f]+`)

func panicSig(p string) string {
	first := p
	if i := strings.Index(first, "\n"); i >= 0 {
		first = first[:i]
	}
	if i := strings.Index(first, "): "); i >= 0 {
		first = first[i+3:]
	}
	first = reHex.ReplaceAllString(first, "0x?")
	fn := "?"
	for _, l := range strings.Split(p, "\n") {
		if strings.Contains(l, "ddddddO/gtree") && !strings.Contains(l, "verifmc") && !strings.HasPrefix(l, "\t") {
			fn = l
			if i := strings.LastIndex(fn, "/"); i >= 0 {
				fn = fn[i+1:]
			}
			if i := strings.Index(fn, "("); i > 0 && !strings.HasPrefix(fn, "gtree.(") && !strings.HasPrefix(fn, "markdown.(") {
				fn = fn[:i]
			} else if j := strings.LastIndex(fn, "("); j > 0 {
				fn = fn[:j]
			}
			break
		}
	}
	return first + " in " + fn
}

func endViolations(prop string, o *mc.Outcome) []Viol {
	var vs []Viol
	switch o.End() {
	case "panic":
		vs = append(vs, Viol{prop + "|panic|" + panicSig(o.Panic), o.Panic})
	case "horizon":
		vs = append(vs, Viol{prop + "|horizon", "execution exceeded the step horizon (livelock?)"})
	case "hang", "leak":
		seen := map[string]bool{}
		primary := 0
		for _, b := range o.Blocked {
			if b.What != "wgwait" {
				primary++
			}
		}
		for _, b := range o.Blocked {
			if b.What == "wgwait" && primary > 0 {
				continue // a stage manager waiting for a stuck worker is a consequence, not a cause
			}
			sig := fmt.Sprintf("%s|%s|%s|%s", prop, o.End(), b.Func, b.What)
			if seen[sig] {
				continue
			}
			seen[sig] = true
			var all []string
			for _, x := range o.Blocked {
				all = append(all, x.String())
			}
			vs = append(vs, Viol{sig, "blocked forever: " + strings.Join(all, "; ")})
		}
	}
	return vs
}

func raceViolations(prop string, o *mc.Outcome) []Viol {
	var vs []Viol
	var ks []string
	for k := range o.Races {
		ks = append(ks, k)
	}
	sort.Strings(ks)
	for _, k := range ks {
		vs = append(vs, Viol{prop + "|race|" + k, "unsynchronised conflicting accesses (no happens-before): " + k})
	}
	return vs
}

func (e *c11Exec) Check(o *mc.Outcome) []Viol {
	e.Finish()
	vs := endViolations("C11", o)
	vs = append(vs, raceViolations("C11", o)...)
	if e.ErrChanged != "" {
		vs = append(vs, Viol{"C11|returned-error-changed-after-return|" + e.d.Op, fmt.Sprintf("driver %s: %s", e.d, e.ErrChanged)})
	}
	if (o.End() == "complete" || o.End() == "leak") && e.CancelSeen && e.Err != nil && e.cleanInput {
		// nothing but the cancellation can have gone wrong (valid input, healthy reader / writer / callback / file
		// system): the error must be the context's error
		if !errors.Is(e.Err, mctx.Canceled) {
			vs = append(vs, Viol{"C11|cancelled-but-error-is-not-the-contexts", fmt.Sprintf("driver %s: context cancelled before the call returned; returned %q, which is not context.Canceled", e.d, e.Err)})
		}
	}
	if (o.End() == "complete" || o.End() == "leak") && e.CancelSeen && e.Err == nil && !e.d.Simple && e.ActionsAfterCancel > 0 {
		// the call went on writing / calling back after the cancellation was complete, so it was not finished then:
		// it has to report the context's error, however much of the work it still did
		vs = append(vs, Viol{"C11|cancelled-before-finishing-but-nil|" + e.d.Op, fmt.Sprintf("driver %s: %d writes / callbacks began after the context had been cancelled, and the call returned nil (output %q)", e.d, e.ActionsAfterCancel, short(e.Out))})
	}
	if o.End() == "complete" || o.End() == "leak" {
		if e.CancelSeen && e.Err == nil && e.full != "" {
			complete := sameBlocks(e.Out, e.full)
			if !complete {
				vs = append(vs, Viol{"C11|cancelled-before-finish-but-nil", fmt.Sprintf("context cancelled before the call returned, result nil, output incomplete: %q (full output %q) driver: %s", e.Out, e.full, e.d)})
			}
		}
	}
	return vs
}

// sameBlocks: got is a permutation of the lines-blocks of want (blocks start at unindented... cheap form: same multiset of lines)
func sameBlocks(got, want string) bool {
	a, b := strings.Split(got, "\n"), strings.Split(want, "\n")
	sort.Strings(a)
	sort.Strings(b)
	return strings.Join(a, "\n") == strings.Join(b, "\n")
}

func c11Scenario(name string, d *Drv, bound int, workers map[string]int, policies []int) *Scenario {
	var full string
	clean := false
	return &Scenario{
		Name: name, Prop: "C11", Workers: workers, Bound: bound, Policies: policies,
		Prepare: func() {
			// is the driver free of every fault but the cancellation? (the same call without massive and without cancel succeeds)
			clean = false
			if d.ReaderFailAfter < 0 && d.WriterFailAt == 0 && d.CbFailAt == 0 && d.FSFailAt == 0 && d.CbGoexitAt == 0 {
				ref := *d
				ref.Simple, ref.Canceller, ref.PreCancel, ref.ReaderCancelAt, ref.NoYield = true, false, false, -1, true
				run := ref.New()
				func() {
					defer func() { recover() }()
					run.Body()
					clean = run.Returned && run.Err == nil
				}()
				run.Finish()
			}
			// fault-free simple-mode output as the "complete output" reference of the cancel clause
			if strings.HasPrefix(d.Op, "out-") || strings.HasPrefix(d.Op, "root:out-") {
				ref := *d
				ref.Simple, ref.ReaderFailAfter, ref.ReaderCancelAt, ref.WriterFailAt, ref.Canceller, ref.PreCancel, ref.NoYield = true, -1, -1, 0, false, false, true
				ref.CbGoexitAt = 0
				run := ref.New()
				func() {
					defer func() { recover() }()
					run.Body()
				}()
				run.Finish()
				if run.Err == nil {
					full = run.Out
				}
			}
		},
		New: func() Exec { return &c11Exec{DrvRun: d.New(), full: full, cleanInput: clean} },
	}
}

var (
	w3 = map[string]int{"*": 3}
	w2 = map[string]int{"*": 2}
	w1 = map[string]int{"*": 1}
)

func rootOf(doc string) *model.Node {
	// tiny helper for From-Root drivers: "a(b,c(d))"-free: build from 2-space markdown with one root
	var root *model.Node
	var stack []*model.Node
	for _, l := range strings.Split(strings.TrimRight(doc, "\n"), "\n") {
		lv := (len(l) - len(strings.TrimLeft(l, " "))) / 2
		n := &model.Node{Name: strings.TrimPrefix(strings.TrimLeft(l, " "), "- ")}
		if lv == 0 {
			root = n
		} else {
			p := stack[lv-1]
			p.Kids = append(p.Kids, n)
		}
		stack = append(stack[:lv], n)
	}
	return root
}

func init() {
	scenarioGens["C11"] = func(tier string) []*Scenario {
		var out []*Scenario
		k1, k2 := 1, 2
		pols := []int{0, 1, 2}
		if tier == "thorough" {
			k1, k2 = 2, 3
		}
		add := func(name string, d *Drv, bound int, w map[string]int) {
			p := pols
			if bound >= 2 && tier == "quick" {
				p = pols[:1]
			}
			out = append(out, c11Scenario(name, d, bound, w, p))
		}
		const ok3 = "- a\n  - b\n- c\n  - d\n- e\n"
		const ok2 = "- a\n  - b\n- c\n  - d\n"
		// 1. all-valid documents, every operation
		for _, op := range []string{"out-text", "out-json", "out-yaml", "out-dry", "walk", "mkdir", "verify"} {
			d := NewDrv(op, ok2)
			if op == "verify" {
				d.Pre = map[string]byte{"a/b": 'd', "c/d": 'd'}
			}
			b := k1
			if op == "out-text" || op == "out-dry" {
				b = k2
			}
			add("valid2/"+op, d, b, w2)
		}
		// 1b. file extensions (the mkdir / dry-run stages decide file vs. directory per node): several roots with
		// several sibling files each, so that different workers handle files at the same time
		{
			const files3 = "- a\n  - f.go\n  - g.go\n- c\n  - h.go\n  - sub\n    - i.go\n    - j.go\n- e.go\n"
			for _, op := range []string{"mkdir", "out-dry", "verify", "walk"} {
				d := NewDrv(op, files3)
				d.Exts = []string{".go"}
				if op == "verify" {
					d.Pre = map[string]byte{"a/f.go": 'f', "a/g.go": 'f', "c/h.go": 'f', "c/sub/i.go": 'f', "c/sub/j.go": 'f', "e.go": 'f'}
				}
				add("exts3/"+op, d, k1, w3)
				if op == "mkdir" {
					d2 := NewDrv(op, files3)
					d2.Exts = []string{".go", "sub"}
					add("exts3/"+op+"/w2", d2, k1, w2)
				}
			}
		}
		// 1c. the producer goes quiet in the middle of the document (a pipe, a terminal) while the call already has its
		// error: a failing writer / callback, a cancellation. The call returns without waiting for more input.
		{
			const doc = "- a\n  - b\n- c\n  - d\n- e\n  - f\n"
			for _, at := range []int{5, 10} {
				// a cancellation does not depend on how much has been read
				cn := NewDrv("out-text", doc)
				cn.ReaderBlockAt, cn.Canceller = at, true
				add(fmt.Sprintf("quietproducer/at%d/cancel", at), cn, k1, w2)
			}
			// (a root block is handed on when the next root line has been read: after 20 bytes the first block is on its way)
			for _, at := range []int{20, 25} {
				wf := NewDrv("out-text", doc)
				wf.ReaderBlockAt, wf.WriterFailAt = at, 1
				add(fmt.Sprintf("quietproducer/at%d/writerfail", at), wf, k1, w2)
				jf := NewDrv("out-json", doc)
				jf.ReaderBlockAt, jf.WriterFailAt = at, 1
				add(fmt.Sprintf("quietproducer/at%d/json-writerfail", at), jf, k1, w2)
				cf := NewDrv("walk", doc)
				cf.ReaderBlockAt, cf.CbFailAt = at, 1
				add(fmt.Sprintf("quietproducer/at%d/cbfail", at), cf, k1, w2)
				cn := NewDrv("out-text", doc)
				cn.ReaderBlockAt, cn.Canceller = at, true
				add(fmt.Sprintf("quietproducer/at%d/cancel", at), cn, k1, w2)
				bad := NewDrv("out-text", "- a\n  -\n- c\n  - d\n- e\n")
				bad.ReaderBlockAt = at
				add(fmt.Sprintf("quietproducer/at%d/genfail", at), bad, k1, w2)
			}
		}
		// 1d. writer errors of particular kinds (a closed pipe, EPIPE, a bare io.EOF): whatever the error is, the call ends
		for _, fl := range []string{"closed-pipe", "epipe", "eof"} {
			for _, op := range []string{"out-text", "out-dry", "out-json"} {
				d := NewDrv(op, ok3)
				d.WriterFailAt, d.ErrFlavour = 1, fl
				add(fmt.Sprintf("writerkind/%s/%s", fl, op), d, k1, w2)
			}
		}
		// 1f. a callback that ends its goroutine (runtime.Goexit - what t.FailNow does when called from the callback):
		// the worker is gone, its stage must still wind up and the call must come back
		for _, at := range []int{1, 3} {
			g := NewDrv("walk", ok3)
			g.CbGoexitAt = at
			add(fmt.Sprintf("cbgoexit/at%d", at), g, k1, w2)
		}
		// 1e. heading roots (the parser keeps a flag for them): two heading documents, all stages
		add("sharp2/out-text", NewDrv("out-text", "# a\n- b\n# c\n- d\n"), k1, w2)
		add("sharp2/walk", NewDrv("walk", "# a\n- b\n# c\n- d\n# e\n"), k1, w3)
		// 2. generator-stage failures: every non-empty subset of 3 roots has an empty item
		for mask := 1; mask < 8; mask++ {
			doc := ""
			for i, r := range []string{"a", "c", "e"} {
				doc += "- " + r + "\n"
				if mask&(1<<i) != 0 {
					doc += "  -\n"
				} else {
					doc += "  - x\n"
				}
			}
			b := k1
			if mask == 7 && tier == "quick" {
				b = k1
			}
			add(fmt.Sprintf("genfail/mask%d/out-text", mask), NewDrv("out-text", doc), b, w3)
			if mask == 7 || mask == 3 {
				add(fmt.Sprintf("genfail/mask%d/walk", mask), NewDrv("walk", doc), k1, w3)
				add(fmt.Sprintf("genfail/mask%d/out-json", mask), NewDrv("out-json", doc), k1, w3)
			}
		}
		// 3. grower-stage failures (name validation is on for dry-run and verify): invalid names in a subset of roots
		for _, mask := range []int{1, 3, 7} {
			doc := ""
			for i, r := range []string{"a", "c", "e"} {
				doc += "- " + r + "\n"
				if mask&(1<<i) != 0 {
					doc += "  - x/y\n"
				} else {
					doc += "  - x\n"
				}
			}
			add(fmt.Sprintf("growfail/mask%d/out-dry", mask), NewDrv("out-dry", doc), k1, w3)
			add(fmt.Sprintf("growfail/mask%d/verify", mask), NewDrv("verify", doc), k1, w3)
		}
		// 4. last-stage failures
		for j := 1; j <= 3; j++ {
			for _, op := range []string{"out-json", "out-yaml", "out-dry", "out-text"} {
				d := NewDrv(op, "- a\n- c\n- e\n")
				d.WriterFailAt = j
				add(fmt.Sprintf("writerfail/%s/at%d", op, j), d, k1, w2)
			}
		}
		for j := 1; j <= 4; j++ {
			d := NewDrv("walk", ok3)
			d.CbFailAt = j
			add(fmt.Sprintf("cbfail/at%d", j), d, k1, w3)
		}
		{ // verify: all three roots missing / one missing; mkdir: roots pre-existing
			d := NewDrv("verify", ok3)
			add("verifyfail/all-missing", d, k1, w3)
			d2 := NewDrv("verify", ok3)
			d2.Pre = map[string]byte{"a/b": 'd', "e": 'd'}
			add("verifyfail/one-missing", d2, k1, w3)
			// every root exists but lacks what is listed below it (the verdict of each root carries lists of paths)
			for wi, w := range []map[string]int{w1, w2, w3} {
				dv := NewDrv("verify", "- a\n  - b\n  - b2\n- c\n  - d\n  - d2\n- e\n  - f\n- g\n  - h\n  - h2\n")
				dv.Pre = map[string]byte{"a": 'd', "c": 'd', "e": 'd', "g": 'd', "a/zz": 'd', "g/zz": 'f'}
				dv.Strict = wi == 1
				add(fmt.Sprintf("verifyfail/children-missing/w%d", wi+1), dv, k1, w)
			}
			d3 := NewDrv("verify", ok3)
			d3.Pre = map[string]byte{"a/b": 'd', "a/extra": 'd', "c/d": 'd', "c/extra": 'd', "e/extra": 'd'}
			d3.Strict = true
			add("verifyfail/strict-extras", d3, k1, w3)
			m := NewDrv("mkdir", ok3)
			m.Pre = map[string]byte{"a": 'd', "c": 'd', "e": 'd'}
			add("mkdirfail/all-exist", m, k1, w3)
			m2 := NewDrv("mkdir", ok3)
			m2.Pre = map[string]byte{"c": 'f'}
			add("mkdirfail/one-exists", m2, k1, w3)
		}
		// 4b. a failing file-system call at each of the first calls of a massive mkdir / verify
		for j := 1; j <= 6; j++ {
			m := NewDrv("mkdir", ok3)
			m.FSFailAt = j
			add(fmt.Sprintf("fsfail/mkdir/at%d", j), m, k1, w3)
			if j <= 3 {
				v := NewDrv("verify", ok3)
				v.FSFailAt = j
				v.Pre = map[string]byte{"a/b": 'd', "c/d": 'd', "e": 'd'}
				add(fmt.Sprintf("fsfail/verify/at%d", j), v, k1, w3)
			}
		}
		// 4c. other kinds of file-system failure: "exists", "too many open files" once and from then on, "no space" from
		// then on (a resource that stays exhausted must not make the call wait for it forever); base schedules only
		for j := 1; j <= 6; j++ {
			for _, kind := range []struct {
				errno   string
				persist bool
			}{{"EEXIST", false}, {"EMFILE", false}, {"EMFILE", true}, {"ENOSPC", true}} {
				m := NewDrv("mkdir", ok3)
				m.Exts = []string{"b", "d"}
				m.FSFailAt, m.FSErrno, m.FSPersist = j, kind.errno, kind.persist
				add(fmt.Sprintf("fsfail/mkdir/at%d-%s-persist=%v", j, kind.errno, kind.persist), m, 0, w3)
			}
		}
		// 5. reader failure / reader-triggered cancellation at every line boundary and inside a line
		for _, off := range []int{0, 2, 4, 10, 12, 20, 24} {
			d := NewDrv("out-text", ok3)
			d.ReaderFailAfter = off
			add(fmt.Sprintf("readerfail/out-text/at%d", off), d, k1, w2)
			c := NewDrv("out-text", ok3)
			c.ReaderCancelAt = off
			add(fmt.Sprintf("readercancel/out-text/at%d", off), c, k1, w2)
		}
		{
			d := NewDrv("out-text", "- a\n  -\n- c\n")
			d.ReaderFailAfter = 13
			add("readerfail+genfail/out-text", d, k1, w2)
			d2 := NewDrv("walk", ok2)
			d2.ReaderFailAfter = 8
			add("readerfail/walk", d2, k1, w2)
		}
		// 6. cancellation from another thread at every instant; pre-cancelled context
		for _, op := range []string{"out-text", "out-json", "out-dry", "walk", "mkdir", "verify"} {
			d := NewDrv(op, ok2)
			d.Canceller = true
			if op == "verify" {
				d.Pre = map[string]byte{"a/b": 'd', "c/d": 'd'}
			}
			add("canceller/"+op, d, k1, w2)
			p := NewDrv(op, ok2)
			p.PreCancel = true
			if op == "verify" {
				p.Pre = map[string]byte{"a/b": 'd', "c/d": 'd'}
			}
			add("precancel/"+op, p, k1, w2)
		}
		// 7. From-Root family with the massive option
		tree := rootOf("- r\n  - a\n    - b\n  - c\n")
		bad := rootOf("- r\n  - a/b\n")
		for _, op := range []string{"root:out-text", "root:out-json", "root:walk", "root:mkdir", "root:verify", "root:mkdir-dry"} {
			d := NewDrv(op, "")
			d.Root = tree
			if op == "root:verify" {
				d.Pre = map[string]byte{"r/a/b": 'd', "r/c": 'd'}
			}
			add("root/valid/"+op, d, k1, w2)
			c := NewDrv(op, "")
			c.Root = tree
			c.Canceller = true
			add("root/canceller/"+op, c, k1, w2)
			p := NewDrv(op, "")
			p.Root = tree
			p.PreCancel = true
			add("root/precancel/"+op, p, k1, w2)
		}
		for _, op := range []string{"root:mkdir", "root:verify", "root:mkdir-dry"} {
			d := NewDrv(op, "")
			d.Root = bad
			add("root/invalid-name/"+op, d, k1, w2)
		}
		{
			d := NewDrv("root:out-json", "")
			d.Root = tree
			d.WriterFailAt = 1
			add("root/writerfail/out-json", d, k1, w2)
			d2 := NewDrv("root:walk", "")
			d2.Root = tree
			d2.CbFailAt = 2
			add("root/cbfail/walk", d2, k1, w2)
		}
		// 7b. more roots than the pipeline holds in flight; cancellation and a late reader failure while the splitter is
		// parked on a hand-over; one worker per stage
		{
			many := ""
			for i := 0; i < 8; i++ {
				many += fmt.Sprintf("- r%d\n  - k%d\n", i, i)
			}
			w1 := map[string]int{"*": 1}
			for _, op := range []string{"out-text", "walk", "out-json"} {
				add("many/valid/"+op, NewDrv(op, many), k1, w2)
				add("many/valid-w1/"+op, NewDrv(op, many), k1, w1)
				c := NewDrv(op, many)
				c.Canceller = true
				add("many/canceller/"+op, c, k1, w2)
				c1 := NewDrv(op, many)
				c1.Canceller = true
				add("many/canceller-w1/"+op, c1, k1, w1)
			}
			// more failing units than workers in the last stage (every root fails there)
			for _, w := range []map[string]int{w2, w1} {
				tag := "w2"
				if w["*"] == 1 {
					tag = "w1"
				}
				add("many/verify-all-missing/"+tag, NewDrv("verify", many), k1, w)
				cbAll := NewDrv("walk", many)
				cbAll.CbFailAt = 1
				add("many/callback-always-fails/"+tag, cbAll, k1, w)
				mk := NewDrv("mkdir", many)
				mk.Pre = map[string]byte{}
				for i := 0; i < 8; i++ {
					mk.Pre[fmt.Sprintf("r%d", i)] = 'd'
				}
				add("many/mkdir-all-exist/"+tag, mk, k1, w)
				wj := NewDrv("out-json", many)
				wj.WriterFailAt = 1
				add("many/writer-always-fails/out-json/"+tag, wj, k1, w)
				wt := NewDrv("out-text", many)
				wt.WriterFailAt = 1
				add("many/writer-always-fails/out-text/"+tag, wt, k1, w)
				gb := NewDrv("out-text", strings.ReplaceAll(many, "  - k", "  -"))
				add("many/every-block-malformed/"+tag, gb, k1, w)
			}
			r := NewDrv("out-text", many)
			r.ReaderFailAfter = len(many) - 3
			add("many/readerfail-late/out-text", r, k1, w2)
			wf := NewDrv("out-text", many)
			wf.WriterFailAt = 5
			add("many/writerfail/out-text", wf, k1, w1)
			cb := NewDrv("walk", many)
			cb.CbFailAt = 6
			add("many/cbfail/walk", cb, k1, w1)
		}
		// 7d. encoded / text output larger than an I/O buffer (4096 bytes) with a writer that fails: an error can surface
		// in the middle of a root and again at a later flush
		{
			big := ""
			for r := 0; r < 3; r++ {
				big += fmt.Sprintf("- big%d\n", r)
				for i := 0; i < 48; i++ {
					big += fmt.Sprintf("  - c%d-%03d-%s\n", r, i, strings.Repeat("x", 80))
				}
			}
			for _, op := range []string{"out-json", "out-yaml", "out-dry", "out-text"} {
				for _, at := range []int{1, 2} {
					d := NewDrv(op, big)
					d.WriterFailAt = at
					d.NoYield = op == "out-text"
					add(fmt.Sprintf("bigout/writerfail/%s/at%d", op, at), d, k1, w2)
				}
			}
		}
		// 7e. WithMassive(nil) means context.Background()
		for _, op := range []string{"out-text", "walk", "mkdir"} {
			d := NewDrv(op, ok2)
			d.NilCtx = true
			add("nilctx/"+op, d, k1, w2)
			g := NewDrv(op, "- a\n  -\n- c\n")
			g.NilCtx = true
			add("nilctx/genfail/"+op, g, k1, w2)
		}
		// 8. # heading roots (the parser flag shared by all generator workers)
		add("sharp/out-text", NewDrv("out-text", "# a\n# b\n"), k1, w2)
		return out
	}
}

func short(s string) string {
	if len(s) <= 24 {
		return fmt.Sprintf("%q", s)
	}
	return fmt.Sprintf("%q..(%d bytes, h=%x)", s[:12], len(s), mc.Mix(0, hashString(s))&0xffff)
}

func hashString(s string) uint64 {
	var h uint64 = 1469598103934665603
	for i := 0; i < len(s); i++ {
		h ^= uint64(s[i])
		h *= 1099511628211
	}
	return h
}
