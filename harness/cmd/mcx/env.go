//go:build mcbuild

package main

import (
	"bytes"
	"context"
	"errors"
	"fmt"
	"io"
	"os"
	"strings"
	"syscall"

	mc "github.com/ddddddO/gtree/verifmc"
)

var (
	errReader   = errors.New("verif: injected reader failure")
	errWriter   = errors.New("verif: injected writer failure")
	errCallback = errors.New("verif: injected callback failure")

	siteWriter   = mc.AddSite("harness:io.Writer state")
	siteCallback = mc.AddSite("harness:callback state")
)

// mcWriter is the environment's io.Writer: a scheduling point before every write, hand-instrumented
// state for the race monitor, failure from the failAt-th write on (optionally as a short write).
// flavoured: errors of real readers and writers often wrap something else (a cancelled request, a deadline)
func flavoured(name string, base error) error {
	switch name {
	case "canceled-wrapped":
		return fmt.Errorf("stream closed: %w (%w)", base, context.Canceled)
	case "deadline-wrapped":
		return fmt.Errorf("i/o timeout: %w (%w)", base, context.DeadlineExceeded)
	case "closed-pipe":
		// what a write to a pipe gives after the reader has gone (`| head`)
		// (every flavour also wraps the harness's own sentinel, by which the oracles recognise the injected error)
		return fmt.Errorf("%w (%w)", io.ErrClosedPipe, base)
	case "epipe":
		return &os.PathError{Op: "write", Path: "/dev/stdout", Err: fmt.Errorf("%w (%w)", syscall.EPIPE, base)}
	case "eof":
		return fmt.Errorf("%w (%w)", io.EOF, base)
	}
	return base
}

type mcWriter struct {
	err      error
	buf      bytes.Buffer
	writes   int
	failAt   int
	short    bool
	noYield  bool
	once     bool // transient failure: only write number failAt is rejected
	state    int
	accepted int
	// cancelled points at the run's "the cancellation is complete" flag; afterCancel counts the writes that begin later
	cancelled   *bool
	afterCancel int
}

func (w *mcWriter) Write(p []byte) (int, error) {
	if !w.noYield {
		mc.YieldAs("write")
	}
	*mc.W(&w.state, siteWriter)++
	w.writes++
	if w.cancelled != nil && *w.cancelled {
		w.afterCancel++
	}
	if w.failAt > 0 && (w.writes == w.failAt || (w.writes > w.failAt && !w.once)) {
		e := w.err
		if e == nil {
			e = errWriter
		}
		if w.short && len(p) > 1 && w.writes == w.failAt {
			w.buf.Write(p[:len(p)/2])
			w.accepted += len(p) / 2
			return len(p) / 2, e
		}
		return 0, e
	}
	w.accepted += len(p)
	return w.buf.Write(p)
}

// mcReader hands out the document line by line with a scheduling point before every Read;
// after failAfter bytes (>=0) it returns errReader; at cancelAt bytes (>=0) it calls cancel.
type mcReader struct {
	err       error
	data      string
	pos       int
	failAfter int
	cancelAt  int
	cancel    func()
	noYield   bool
	cancelled bool
	// blockAt > 0: after blockAt bytes the producer goes quiet: Read blocks until release is closed (a pipe or a
	// terminal whose writer is still there); then it reports the end of input
	blockAt int
	release *mc.Chan[struct{}]
}

func newReader(doc string) *mcReader { return &mcReader{data: doc, failAfter: -1, cancelAt: -1} }

func (r *mcReader) Read(p []byte) (int, error) {
	if !r.noYield {
		mc.YieldAs("read")
	}
	if r.cancelAt >= 0 && r.pos >= r.cancelAt && !r.cancelled {
		r.cancelled = true
		r.cancel()
	}
	if r.blockAt > 0 && r.pos >= r.blockAt {
		r.release.Recv()
		return 0, errEOF
	}
	limit := len(r.data)
	if r.failAfter >= 0 && r.failAfter < limit {
		limit = r.failAfter
	}
	if r.blockAt > 0 && r.blockAt < limit {
		limit = r.blockAt
	}
	if r.pos >= limit {
		if r.failAfter >= 0 && !(r.blockAt > 0) {
			if r.err != nil {
				return 0, r.err
			}
			return 0, errReader
		}
		return 0, errEOF
	}
	end := limit
	if i := strings.IndexByte(r.data[r.pos:limit], '\n'); i >= 0 {
		end = r.pos + i + 1
	}
	if r.cancelAt > r.pos && r.cancelAt < end {
		end = r.cancelAt
	}
	n := copy(p, r.data[r.pos:end])
	r.pos += n
	return n, nil
}
