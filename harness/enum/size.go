package enum

import "fmt"

// Size sweep ("no gaps"): a size threshold inside the library (a buffer of 64 children, a stack of 128 levels, an
// array of 256 path elements) is invisible to a family that samples sizes. The shapes below are therefore generated
// for EVERY integer size up to the bound, and each size comes with the few follow-up rows that make a wrong
// boundary observable: a row that returns to an earlier level after a deep chain, a child written again (it must
// merge) at the positions next to every power of two, a grandchild hanging below an early, a middle and the last
// child of a wide parent.

// Sizes lists every integer 1..upTo, then the neighbours of the powers of two up to far.
func Sizes(upTo, far int) []int {
	var out []int
	for i := 1; i <= upTo; i++ {
		out = append(out, i)
	}
	for p := 1; p <= far; p *= 2 {
		for _, v := range []int{p - 1, p, p + 1, p + 2} {
			if v > upTo && v <= far {
				out = append(out, v)
			}
		}
	}
	return out
}

// EdgePositions: indexes in [0,n) next to every power of two, plus first, middle and last.
func EdgePositions(n int) []int {
	seen := map[int]bool{}
	var out []int
	add := func(i int) {
		if i >= 0 && i < n && !seen[i] {
			seen[i] = true
			out = append(out, i)
		}
	}
	add(0)
	add(n / 2)
	add(n - 1)
	add(n - 2)
	for p := 2; p <= n; p *= 2 {
		add(p - 2)
		add(p - 1)
		add(p)
	}
	return out
}

// SizeShape is one member of the sweep: a depth sequence with names, Tag says what it is, Size is the swept quantity.
type SizeShape struct {
	Tag   string
	Size  int
	D     []int
	Names []string
}

// DeepShapes: for every depth D: the chain n1..nD followed by a row back at level L with a child of its own, for L next
// to 1, 2, 3, D/2, D-1, D (L=1 opens a second root); and the chain with a leaf beside every level.
func DeepShapes(depths []int, f func(s SizeShape)) {
	for _, D := range depths {
		var d []int
		var names []string
		for l := 1; l <= D; l++ {
			d = append(d, l)
			names = append(names, fmt.Sprintf("n%d", l))
		}
		seen := map[int]bool{}
		for _, L := range []int{1, 2, 3, D / 2, D - 1, D, D + 1} {
			if L < 1 || L > D+1 || seen[L] {
				continue
			}
			seen[L] = true
			dd := append(append([]int{}, d...), L, L+1)
			nn := append(append([]string{}, names...), "back", "bk")
			f(SizeShape{fmt.Sprintf("chain-%d-then-level-%d", D, L), D, dd, nn})
		}
		// deep AND wide: the root has two children and each carries a chain down to depth D (two nodes at the same deep
		// level whose ancestors differ only next to the root)
		if D >= 3 {
			df, nf := []int{1}, []string{"r"}
			for _, br := range []string{"a", "b"} {
				for l := 2; l <= D; l++ {
					df = append(df, l)
					nf = append(nf, fmt.Sprintf("%s%d", br, l))
				}
				df = append(df, D)
				nf = append(nf, br+"leaf")
			}
			f(SizeShape{fmt.Sprintf("chain-fork-%d", D), D, df, nf})
		}
		// a leaf before the chain continues, at every level ("comb"): every inner node has two children
		var dc []int
		var nc []string
		for l := 1; l <= D; l++ {
			dc = append(dc, l)
			nc = append(nc, fmt.Sprintf("n%d", l))
			if l >= 2 {
				dc = append(dc, l)
				nc = append(nc, fmt.Sprintf("t%d", l))
			}
		}
		f(SizeShape{fmt.Sprintf("comb-%d", D), D, dc, nc})
	}
}

// WideShapes: for every width W: a parent with W distinct children where (a) child i has a grandchild written right
// below it, (b) child i is written again at the end with a grandchild (it must merge into the i-th child), for the
// edge positions i; the wide parent is the root or a node one level below the root (then followed by an uncle).
func WideShapes(widths []int, f func(s SizeShape)) {
	for _, W := range widths {
		for _, below := range []bool{false, true} {
			base := 1
			var d0 []int
			var n0 []string
			if below {
				base = 2
				d0, n0 = []int{1}, []string{"top"}
			}
			pos := EdgePositions(W)
			if below && len(pos) > 4 {
				pos = pos[:4]
			}
			for _, i := range pos {
				d := append(append([]int{}, d0...), base)
				names := append(append([]string{}, n0...), "r")
				for j := 0; j < W; j++ {
					d = append(d, base+1)
					names = append(names, fmt.Sprintf("c%04d", j))
					if j == i {
						d = append(d, base+2)
						names = append(names, "g")
					}
				}
				if below {
					d = append(d, base)
					names = append(names, "uncle")
				}
				f(SizeShape{fmt.Sprintf("wide-%d-grandchild-below-%d-under-level-%d", W, i, base), W, d, names})

				d = append(append([]int{}, d0...), base)
				names = append(append([]string{}, n0...), "r")
				for j := 0; j < W; j++ {
					d = append(d, base+1)
					names = append(names, fmt.Sprintf("c%04d", j))
				}
				d = append(d, base+1, base+2, base+1)
				names = append(names, fmt.Sprintf("c%04d", i), "again", "tail")
				f(SizeShape{fmt.Sprintf("wide-%d-child-%d-written-again-under-level-%d", W, i, base), W, d, names})
			}
		}
	}
}

// ManyRootShapes: R roots with one child each, for every R.
func ManyRootShapes(counts []int, f func(s SizeShape)) {
	for _, R := range counts {
		var d []int
		var names []string
		for i := 0; i < R; i++ {
			d = append(d, 1, 2)
			names = append(names, fmt.Sprintf("root%04d", i), "k")
		}
		f(SizeShape{fmt.Sprintf("roots-%d", R), R, d, names})
	}
}

// SquareShapes: wide AND wide: a root with W children that have W children each (W*W+W+1 nodes), for every W.
func SquareShapes(widths []int, f func(s SizeShape)) {
	for _, W := range widths {
		d, names := []int{1}, []string{"r"}
		for i := 0; i < W; i++ {
			d = append(d, 2)
			names = append(names, fmt.Sprintf("c%04d", i))
			for j := 0; j < W; j++ {
				d = append(d, 3)
				names = append(names, fmt.Sprintf("g%04d", j))
			}
		}
		f(SizeShape{fmt.Sprintf("square-%d", W), W, d, names})
	}
}
