package enum

import (
	"fmt"
	"hash/adler32"
	"hash/crc32"
	"hash/fnv"
	"sync"
)

// Fingerprint twins: pairs of different names that agree on a cheap fingerprint a library might be tempted to compare
// instead of the names themselves: same length and same first and last byte, anagrams (equal sums and xors of bytes),
// equal after case folding, equal up to Unicode normalisation, and equal-length collisions of the standard library's
// unkeyed 32-bit hashes (FNV-1, FNV-1a, CRC-32 IEEE and Castagnoli, Adler-32), also with a common suffix. The hash
// collisions are found by a deterministic birthday search when first asked for (a few hundred thousand six- or eight-letter
// names), so the same pairs are used on every run.

var (
	twinsOnce sync.Once
	twins     [][2]string
)

func letters(i uint64, n int) string {
	// a fixed permutation of the counter (odd multiplier) spreads the letters
	v := i*48271 + 12345
	b := make([]byte, n)
	for k := n - 1; k >= 0; k-- {
		b[k] = byte('a' + v%26)
		v /= 26
	}
	return string(b)
}

// collide: the first `want` pairs of n-letter names with equal h (CRC-32 is linear, so six lowercase letters, 30 free
// bits, cannot collide at all; eight can).
func collide(h func(string) uint32, n, want int) [][2]string {
	seen := map[uint32]string{}
	var out [][2]string
	for i := uint64(0); i < 1_500_000 && len(out) < want; i++ {
		s := letters(i, n)
		k := h(s)
		if o, ok := seen[k]; ok && o != s {
			out = append(out, [2]string{o, s})
			continue
		}
		seen[k] = s
	}
	return out
}

// Twins returns the pairs (deterministic).
func Twins() [][2]string {
	twinsOnce.Do(func() {
		twins = [][2]string{
			{"abc", "adc"}, {"ab", "ba"}, {"listen", "silent"}, {"ad", "bc"}, // ends+length, anagram, equal byte sums
			{"readme", "README"}, {"straße", "strasse"}, {"é", "é"}, {"ﬁle", "file"}, // case folding, normalisation
			{"a", "a​"}, {"x1", "x01"}, {"a.go", "a.Go"},
		}
		hs := []func(string) uint32{
			func(s string) uint32 { h := fnv.New32(); h.Write([]byte(s)); return h.Sum32() },
			func(s string) uint32 { h := fnv.New32a(); h.Write([]byte(s)); return h.Sum32() },
			func(s string) uint32 { return crc32.ChecksumIEEE([]byte(s)) },
			func(s string) uint32 { return crc32.Checksum([]byte(s), crc32.MakeTable(crc32.Castagnoli)) },
			func(s string) uint32 { return adler32.Checksum([]byte(s)) },
			// FNV-1a of the name with the suffix a file would carry
			func(s string) uint32 { h := fnv.New32a(); h.Write([]byte(s + ".go")); return h.Sum32() },
		}
		for i, h := range hs {
			ps := collide(h, []int{6, 6, 8, 8, 6, 6}[i], 2)
			if i == 5 {
				for j := range ps {
					ps[j][0] += ".go"
					ps[j][1] += ".go"
				}
			}
			twins = append(twins, ps...)
		}
	})
	return twins
}

// TwinShapes: each pair as siblings with a child each, as siblings where the first is written again, as parent and
// child, and as two roots.
func TwinShapes(f func(s SizeShape)) {
	for i, p := range Twins() {
		x, y := p[0], p[1]
		f(SizeShape{fmt.Sprintf("twins-%d-siblings", i), i, []int{1, 2, 3, 2, 3}, []string{"r", x, "gx", y, "gy"}})
		f(SizeShape{fmt.Sprintf("twins-%d-siblings-first-again", i), i, []int{1, 2, 2, 2, 3}, []string{"r", x, y, x, "k"}})
		f(SizeShape{fmt.Sprintf("twins-%d-parent-child", i), i, []int{1, 2, 3, 2}, []string{x, y, x, x}})
		f(SizeShape{fmt.Sprintf("twins-%d-roots", i), i, []int{1, 2, 1, 2}, []string{x, "k", y, "k"}})
	}
}
