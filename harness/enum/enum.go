// Package enum enumerates the bounded spaces the checks explore: ordered
// forests (as pre-order depth sequences), labelings, spellings, tuples.
package enum

import (
	"strings"

	"verifharness/model"
)

// DepthSeqs calls f with every pre-order depth sequence of an ordered forest
// with exactly n nodes: d[0]=1, 1 <= d[i+1] <= d[i]+1. There are Catalan(n)
// of them. The slice is reused; copy it to keep it.
func DepthSeqs(n int, f func(d []int)) {
	if n == 0 {
		f(nil)
		return
	}
	d := make([]int, n)
	var rec func(i int)
	rec = func(i int) {
		if i == n {
			f(d)
			return
		}
		max := 1
		if i > 0 {
			max = d[i-1] + 1
		}
		for v := 1; v <= max; v++ {
			d[i] = v
			rec(i + 1)
		}
	}
	rec(0)
}

// Tuples calls f with every tuple in {0..base-1}^n (odometer order; slice reused).
func Tuples(n, base int, f func(t []int)) {
	t := make([]int, n)
	for {
		f(t)
		i := n - 1
		for ; i >= 0; i-- {
			t[i]++
			if t[i] < base {
				break
			}
			t[i] = 0
		}
		if i < 0 {
			return
		}
	}
}

// TuplesVar is Tuples with a per-position base.
func TuplesVar(bases []int, f func(t []int)) {
	n := len(bases)
	for _, b := range bases {
		if b <= 0 {
			return
		}
	}
	t := make([]int, n)
	for {
		f(t)
		i := n - 1
		for ; i >= 0; i-- {
			t[i]++
			if t[i] < bases[i] {
				break
			}
			t[i] = 0
		}
		if i < 0 {
			return
		}
	}
}

// Build makes the forest of a depth sequence and names.
func Build(d []int, names []string) model.Forest {
	var f model.Forest
	var stack []*model.Node // stack[k] = last node at depth k+1
	for i, lv := range d {
		n := &model.Node{Name: names[i]}
		if lv == 1 {
			f = append(f, n)
		} else {
			p := stack[lv-2]
			p.Kids = append(p.Kids, n)
		}
		stack = append(stack[:lv-1], n)
	}
	return f
}

// Flatten is the inverse of Build: pre-order depth sequence and names.
func Flatten(f model.Forest) ([]int, []string) {
	var d []int
	var names []string
	var rec func(n *model.Node, lv int)
	rec = func(n *model.Node, lv int) {
		d = append(d, lv)
		names = append(names, n.Name)
		for _, k := range n.Kids {
			rec(k, lv+1)
		}
	}
	for _, r := range f {
		rec(r, 1)
	}
	return d, names
}

// Spelling is one notation of a document.
type Spelling struct {
	Unit    string // "\t" or k spaces
	Bullets []byte // one of - * + per line (cycled if shorter)
	Heading bool   // roots written as "# name"
	// ListRootsFirst (with Heading): the first k roots are written as list items, only the later ones as headings
	// (after a heading every column-0 item belongs to it, so list roots can only come first)
	ListRootsFirst int
	Gaps           []int // len n+1 (cycled/zero if shorter): 0 nothing, 1 empty line, 2 whitespace-only line, 3 / 4 runs of two / three blank lines
	CRLF           bool
	NoFinal        bool // no newline after the last line
	Compact        bool // list items written without the blank after the bullet ("-name"): the text is everything after the bullet
}

// ExoticBlanks (gap codes 9...): lines made only of white space other than blank and tab: the ASCII form feed and
// vertical tab, and every kind of Unicode space (a line is blank when nothing but white space is on it).
var ExoticBlanks = []string{"\f", "\v", "\u0085", "\u00a0", "\u1680", "\u2000", "\u2003", "\u200a", "\u2028", "\u2029", "\u202f", "\u205f", "\u3000",
	" \f\t", "\u3000\u3000", "\t\u00a0", "\u3000 ", "  \u3000"}

var Canonical = Spelling{Unit: "  ", Bullets: []byte{'-'}}

// Spell writes the forest given by (d, names) in the spelling.
func Spell(d []int, names []string, sp Spelling) string {
	nl := "\n"
	if sp.CRLF {
		nl = "\r\n"
	}
	var lines []string
	gap := func(i int) {
		if len(sp.Gaps) == 0 {
			return
		}
		g := 0
		if i < len(sp.Gaps) {
			g = sp.Gaps[i]
		}
		switch g {
		case 1:
			lines = append(lines, "")
		case 2:
			lines = append(lines, " \t ")
		case 3: // a run of two blank lines
			lines = append(lines, "", " ")
		case 4: // a run of three
			lines = append(lines, "", "", "\t")
		case 5: // white-space-only lines that look like indentation
			lines = append(lines, "  ")
		case 6:
			lines = append(lines, "\t")
		case 7:
			lines = append(lines, " ")
		case 8:
			lines = append(lines, "    ")
		default:
			if g >= 9 && g-9 < len(ExoticBlanks) {
				lines = append(lines, ExoticBlanks[g-9])
			}
		}
	}
	rootNo, underHeading := 0, false
	for i, lv := range d {
		gap(i)
		b := byte('-')
		if len(sp.Bullets) > 0 {
			b = sp.Bullets[i%len(sp.Bullets)]
		}
		if lv == 1 {
			rootNo++
			underHeading = sp.Heading && rootNo > sp.ListRootsFirst
		}
		blank := " "
		if sp.Compact {
			blank = ""
		}
		if underHeading {
			if lv == 1 {
				lines = append(lines, "# "+names[i])
			} else {
				lines = append(lines, strings.Repeat(sp.Unit, lv-2)+string(b)+blank+names[i])
			}
		} else {
			lines = append(lines, strings.Repeat(sp.Unit, lv-1)+string(b)+blank+names[i])
		}
	}
	gap(len(d))
	s := strings.Join(lines, nl)
	if !sp.NoFinal && len(lines) > 0 {
		s += nl
	}
	return s
}

// SpellForest spells a forest.
func SpellForest(f model.Forest, sp Spelling) string {
	d, names := Flatten(f)
	return Spell(d, names, sp)
}

// Pick maps an index tuple to names.
func Pick(alpha []string, t []int) []string {
	o := make([]string, len(t))
	for i, x := range t {
		o[i] = alpha[x]
	}
	return o
}
