// Package rep is the shard-result plumbing shared by all harness binaries.
package rep

import (
	"encoding/json"
	"fmt"
	"hash/fnv"
	"os"
	"sort"
	"time"
)

type Example struct {
	Detail string `json:"detail"`
	Replay any    `json:"replay"`
	Size   int    `json:"size"`
}

type Result struct {
	Property    string               `json:"property"`
	Part        string               `json:"part"`
	Shard       int                  `json:"shard"`
	NShards     int                  `json:"nshards"`
	Evaluations int64                `json:"evaluations"`
	States      int64                `json:"states"`
	Transitions int64                `json:"transitions"`
	Traces      int64                `json:"traces"`
	Nontrivial  int64                `json:"nontrivial"`
	Exhaustive  bool                 `json:"exhaustive"`
	Capped      string               `json:"capped,omitempty"`
	Samples     []any                `json:"samples"`
	ViolCount   map[string]int64     `json:"viol_count"`
	ViolEx      map[string][]Example `json:"viol_examples"`
	Extra       map[string]int64     `json:"extra"`
	Bounds      map[string]string    `json:"bounds"`
	WallS       float64              `json:"wall_s"`
}

type Ctx struct {
	Tier     string
	Shard    int
	NShards  int
	Seed     int64
	Deadline time.Time
	R        *Result
	start    time.Time
	seen     map[uint64]struct{}
	counter  int64
	stopped  bool
}

func New(prop, part, tier string, shard, nshards int, seed int64, deadlineS int) *Ctx {
	c := &Ctx{Tier: tier, Shard: shard, NShards: nshards, Seed: seed, start: time.Now(), seen: map[uint64]struct{}{}}
	if deadlineS > 0 {
		c.Deadline = c.start.Add(time.Duration(deadlineS) * time.Second)
	}
	c.R = &Result{Property: prop, Part: part, Shard: shard, NShards: nshards, Exhaustive: true,
		ViolCount: map[string]int64{}, ViolEx: map[string][]Example{}, Extra: map[string]int64{}, Bounds: map[string]string{}}
	return c
}

func (c *Ctx) Thorough() bool { return c.Tier == "thorough" }

// Take implements round-robin sharding over a global case counter.
func (c *Ctx) Take() bool {
	i := c.counter
	c.counter++
	return int(i%int64(c.NShards)) == c.Shard
}

// Expired reports whether the internal deadline passed; the run is then marked non-exhaustive.
func (c *Ctx) Expired() bool {
	if c.stopped {
		return true
	}
	if !c.Deadline.IsZero() && c.R.Evaluations%64 == 0 && time.Now().After(c.Deadline) {
		c.stopped = true
		c.R.Exhaustive = false
		c.R.Capped = "internal deadline reached"
		return true
	}
	return false
}

func (c *Ctx) Cap(why string) { c.R.Exhaustive = false; c.R.Capped = why }

func (c *Ctx) Eval()                 { c.R.Evaluations++ }
func (c *Ctx) Trans(n int)           { c.R.Transitions += int64(n) }
func (c *Ctx) Trace()                { c.R.Traces++ }
func (c *Ctx) Nontrivial()           { c.R.Nontrivial++ }
func (c *Ctx) Inc(k string)          { c.R.Extra[k]++ }
func (c *Ctx) Add(k string, n int64) { c.R.Extra[k] += n }
func (c *Ctx) Bound(k, v string)     { c.R.Bounds[k] = v }

// State records a canonical model state (deduplicated inside the shard).
func (c *Ctx) State(key string) bool {
	h := fnv.New64a()
	h.Write([]byte(key))
	k := h.Sum64()
	if _, ok := c.seen[k]; ok {
		return false
	}
	c.seen[k] = struct{}{}
	c.R.States++
	return true
}

// StateN adds n states that are distinct by construction (partitioned enumeration).
func (c *Ctx) StateN(n int) { c.R.States += int64(n) }

func (c *Ctx) Sample(x any) {
	if len(c.R.Samples) < 4 {
		c.R.Samples = append(c.R.Samples, x)
	}
}

// Violation records a violation; per signature the 3 smallest examples are kept.
func (c *Ctx) Violation(sig, detail string, size int, replay any) {
	c.R.ViolCount[sig]++
	ex := c.R.ViolEx[sig]
	ex = append(ex, Example{Detail: detail, Replay: replay, Size: size})
	sort.SliceStable(ex, func(i, j int) bool { return ex[i].Size < ex[j].Size })
	if len(ex) > 3 {
		ex = ex[:3]
	}
	c.R.ViolEx[sig] = ex
}

func (c *Ctx) Write(path string) error {
	c.R.WallS = time.Since(c.start).Seconds()
	b, err := json.Marshal(c.R)
	if err != nil {
		return err
	}
	if path == "" || path == "-" {
		fmt.Println(string(b))
		return nil
	}
	return os.WriteFile(path, b, 0o644)
}
