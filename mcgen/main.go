// mcgen rewrites a scratch copy of gtree (packages gtree and gtree/markdown) onto the
// controlled runtime verifmc: channels, select, go statements, sync, context, errgroup,
// os (file-system calls), sync/atomic; optionally instruments memory accesses for the race monitor.
package main

import (
	"bytes"
	"fmt"
	"go/ast"
	"go/format"
	"go/token"
	"go/types"
	"os"
	"path/filepath"
	"regexp"
	"strconv"
	"strings"

	"golang.org/x/tools/go/ast/astutil"
	"golang.org/x/tools/go/packages"
)

const mcPath = "github.com/ddddddO/gtree/verifmc"

var importMap = map[string]string{
	"sync":                       mcPath + "/msync",
	"sync/atomic":                mcPath + "/matomic",
	"context":                    mcPath + "/mctx",
	"golang.org/x/sync/errgroup": mcPath + "/merrgroup",
	"time":                       mcPath + "/mtime",
}

// package os is NOT replaced wholesale (a tree may use any part of it): only the calls that touch the file system
// are redirected to the mos seam, everything else stays the real package
var mosFuncs = map[string]bool{"Stat": true, "Lstat": true, "MkdirAll": true, "Mkdir": true, "Create": true, "OpenFile": true,
	"WriteFile": true, "Remove": true, "RemoveAll": true, "ReadDir": true, "DirFS": true, "Open": true, "ReadFile": true,
	"Rename": true, "Chmod": true, "Symlink": true, "MkdirTemp": true}
var importName = map[string]string{"sync": "sync", "sync/atomic": "atomic", "context": "context", "golang.org/x/sync/errgroup": "errgroup", "time": "time"}

var baseDir string
var workerVars []string

var tmp int
var sites []string

func id(n string) *ast.Ident                          { return ast.NewIdent(n) }
func sel(x, s string) ast.Expr                        { return &ast.SelectorExpr{X: id(x), Sel: id(s)} }
func call(f ast.Expr, args ...ast.Expr) *ast.CallExpr { return &ast.CallExpr{Fun: f, Args: args} }
func fresh(p string) string                           { tmp++; return fmt.Sprintf("_mc_%s%d", p, tmp) }
func intLit(i int) ast.Expr                           { return &ast.BasicLit{Kind: token.INT, Value: strconv.Itoa(i)} }

func chanType(ct *ast.ChanType) ast.Expr {
	return &ast.StarExpr{X: &ast.IndexExpr{X: sel("mc", "Chan"), Index: ct.Value}}
}

func unparen(e ast.Expr) ast.Expr {
	for {
		p, ok := e.(*ast.ParenExpr)
		if !ok {
			return e
		}
		e = p.X
	}
}

// ---- memory instrumentation decisions (made on the original, typed AST)

type memKind int

const (
	memNone memKind = iota
	memRead
	memWrite
)

type instr struct {
	info    *types.Info
	pkg     *types.Package
	fset    *token.FileSet
	decide  map[ast.Expr]memKind
	rangeCh map[*ast.RangeStmt]bool
	lenCap  map[*ast.CallExpr]string
	funcs   []funcSpan
	mapAcc  map[ast.Expr]memKind // map-typed operand expressions whose map object is read / written here
	// captured: local variables and parameters that a function literal uses from outside its own body; they live on
	// the heap and may be shared between goroutines (closures run by workers, option closures run by several callers)
	captured map[*types.Var]bool
}

// scanCaptured records the variables that function literals capture.
func (in *instr) scanCaptured(f *ast.File) {
	var lits []*ast.FuncLit
	ast.Inspect(f, func(n ast.Node) bool {
		if n == nil {
			return true
		}
		if l, ok := n.(*ast.FuncLit); ok {
			lits = append(lits, l)
		}
		return true
	})
	for _, lit := range lits {
		ast.Inspect(lit.Body, func(n ast.Node) bool {
			id, ok := n.(*ast.Ident)
			if !ok {
				return true
			}
			obj, ok := in.info.Uses[id].(*types.Var)
			if !ok || obj.IsField() || obj.Parent() == in.pkg.Scope() || obj.Pkg() != in.pkg {
				return true
			}
			if obj.Pos() < lit.Pos() || obj.Pos() > lit.End() {
				in.captured[obj] = true
			}
			return true
		})
	}
}

func (in *instr) isMap(e ast.Expr) bool {
	t := in.info.TypeOf(e)
	if t == nil {
		return false
	}
	_, ok := t.Underlying().(*types.Map)
	return ok
}

// scanMaps finds map reads and writes: m[k], m[k] = v, m[k]++, delete(m,k), clear(m), range m, len(m).
func (in *instr) scanMaps(f *ast.File) {
	ast.Inspect(f, func(n ast.Node) bool {
		switch x := n.(type) {
		case *ast.AssignStmt:
			for _, l := range x.Lhs {
				if ix, ok := unparen(l).(*ast.IndexExpr); ok && in.isMap(ix.X) {
					in.mapAcc[ix.X] = memWrite
				}
			}
		case *ast.IncDecStmt:
			if ix, ok := unparen(x.X).(*ast.IndexExpr); ok && in.isMap(ix.X) {
				in.mapAcc[ix.X] = memWrite
			}
		case *ast.IndexExpr:
			if in.isMap(x.X) {
				if _, done := in.mapAcc[x.X]; !done {
					in.mapAcc[x.X] = memRead
				}
			}
		case *ast.RangeStmt:
			if in.isMap(x.X) {
				in.mapAcc[x.X] = memRead
			}
		case *ast.CallExpr:
			if id, ok := x.Fun.(*ast.Ident); ok && len(x.Args) >= 1 && in.isMap(x.Args[0]) {
				switch id.Name {
				case "delete", "clear":
					in.mapAcc[x.Args[0]] = memWrite
				case "len":
					in.mapAcc[x.Args[0]] = memRead
				}
			}
		}
		return true
	})
}

func (in *instr) wrapMap(orig, e ast.Expr, k memKind) ast.Expr {
	fn := "MR"
	if k == memWrite {
		fn = "MW"
	}
	pos := in.fset.Position(orig.Pos())
	sites = append(sites, fmt.Sprintf("map:%s:%s:%s", shortFile(pos.Filename), in.funcAt(orig.Pos()), types.ExprString(orig)))
	return call(sel("mc", fn), e, intLit(len(sites)-1))
}

type funcSpan struct {
	from, to token.Pos
	name     string
}

func (in *instr) funcAt(p token.Pos) string {
	for _, f := range in.funcs {
		if f.from <= p && p <= f.to {
			return f.name
		}
	}
	return "(package)"
}

// prescan records (on the typed, untouched AST) range-over-channel loops and len/cap of channels.
func (in *instr) prescan(f *ast.File) {
	for _, d := range f.Decls {
		if fd, ok := d.(*ast.FuncDecl); ok {
			name := fd.Name.Name
			if fd.Recv != nil && len(fd.Recv.List) > 0 {
				name = "(" + types.ExprString(fd.Recv.List[0].Type) + ")." + name
			}
			in.funcs = append(in.funcs, funcSpan{fd.Pos(), fd.End(), name})
		}
	}
	ast.Inspect(f, func(n ast.Node) bool {
		switch x := n.(type) {
		case *ast.RangeStmt:
			if t := in.info.TypeOf(x.X); t != nil {
				if _, ok := t.Underlying().(*types.Chan); ok {
					in.rangeCh[x] = true
				}
			}
		case *ast.CallExpr:
			if id, ok := x.Fun.(*ast.Ident); ok && (id.Name == "len" || id.Name == "cap") && len(x.Args) == 1 {
				if t := in.info.TypeOf(x.Args[0]); t != nil {
					if _, ok := t.Underlying().(*types.Chan); ok {
						in.lenCap[x] = id.Name
					}
				}
			}
		}
		return true
	})
}

func isSyncType(t types.Type) bool {
	s := t.String()
	return strings.Contains(s, "sync.") || strings.Contains(s, "verifmc") || strings.HasPrefix(s, "chan ") || strings.HasPrefix(s, "<-chan") || strings.HasPrefix(s, "chan<-")
}

func (in *instr) addressable(e ast.Expr) bool {
	e = unparen(e)
	switch x := e.(type) {
	case *ast.Ident:
		obj, ok := in.info.Uses[x].(*types.Var)
		return ok && !obj.IsField()
	case *ast.StarExpr:
		return true
	case *ast.SelectorExpr:
		s, ok := in.info.Selections[x]
		if !ok || s.Kind() != types.FieldVal {
			return false
		}
		if _, isPtr := in.info.TypeOf(x.X).Underlying().(*types.Pointer); isPtr || s.Indirect() {
			return true
		}
		return in.addressable(x.X)
	case *ast.IndexExpr:
		switch in.info.TypeOf(x.X).Underlying().(type) {
		case *types.Slice:
			return true
		case *types.Array:
			return in.addressable(x.X)
		case *types.Pointer:
			return true
		}
	}
	return false
}

// candidate reports whether e is a memory location we track.
func (in *instr) candidate(e ast.Expr) bool {
	switch x := e.(type) {
	case *ast.SelectorExpr:
		s, ok := in.info.Selections[x]
		if !ok || s.Kind() != types.FieldVal {
			return false
		}
		if isSyncType(s.Type()) {
			return false
		}
		return in.addressable(x)
	case *ast.IndexExpr:
		tv, ok := in.info.Types[x]
		if !ok || tv.IsType() { // generic instantiation
			return false
		}
		if _, isSlice := in.info.TypeOf(x.X).Underlying().(*types.Slice); !isSlice {
			return false
		}
		return true
	case *ast.Ident:
		obj, ok := in.info.Uses[x].(*types.Var)
		if !ok || obj.IsField() {
			return false
		}
		if isSyncType(obj.Type()) {
			return false
		}
		if obj.Parent() == in.pkg.Scope() {
			return true
		}
		if in.captured[obj] {
			// (a captured variable of a channel / func / interface type is still just a variable: reading it is a read)
			return true
		}
		return false
	}
	return false
}

func (in *instr) scan(f *ast.File) {
	var stack []ast.Node
	ast.Inspect(f, func(n ast.Node) bool {
		if n == nil {
			stack = stack[:len(stack)-1]
			return true
		}
		var parent ast.Node
		if len(stack) > 0 {
			parent = stack[len(stack)-1]
		}
		stack = append(stack, n)
		e, ok := n.(ast.Expr)
		if !ok || !in.candidate(e) {
			return true
		}
		kind := memRead
		switch p := parent.(type) {
		case *ast.AssignStmt:
			for _, l := range p.Lhs {
				if l == e {
					kind = memWrite
					if p.Tok == token.DEFINE {
						kind = memNone
					}
				}
			}
		case *ast.IncDecStmt:
			kind = memWrite
		case *ast.UnaryExpr:
			if p.Op == token.AND {
				kind = memNone
			}
		case *ast.RangeStmt:
			if p.Key == e || p.Value == e {
				kind = memWrite
				if p.Tok == token.DEFINE {
					kind = memNone
				}
			}
		case *ast.SelectorExpr:
			// e is the X of a larger selector: if the larger selector is a field of a struct VALUE (not pointer), the
			// access is to the inner location; only the outermost is wrapped.
			if p.X == e {
				if s, ok := in.info.Selections[p]; ok && s.Kind() == types.FieldVal {
					if _, isPtr := in.info.TypeOf(e).Underlying().(*types.Pointer); !isPtr {
						if in.candidate(p) {
							kind = memNone
						}
					}
				}
			}
		case *ast.KeyValueExpr:
			if p.Key == e {
				kind = memNone
			}
		case *ast.ValueSpec:
			kind = memRead
		}
		if kind != memNone {
			in.decide[e] = kind
		}
		return true
	})
}

func (in *instr) wrap(e ast.Expr, k memKind) ast.Expr {
	fn := "R"
	if k == memWrite {
		fn = "W"
	}
	pos := in.fset.Position(e.Pos())
	// site names are stable under line shifts: file, enclosing function, expression text
	sites = append(sites, fmt.Sprintf("%s:%s:%s", shortFile(pos.Filename), in.funcAt(e.Pos()), types.ExprString(e)))
	return &ast.ParenExpr{X: &ast.StarExpr{X: call(sel("mc", fn), &ast.UnaryExpr{Op: token.AND, X: e}, intLit(len(sites)-1))}}
}

func shortFile(p string) string {
	if strings.HasPrefix(p, baseDir+"/") {
		return p[len(baseDir)+1:]
	}
	return p
}

// ---- sync rewriting (post-order)

func transformFile(in *instr, fset *token.FileSet, f *ast.File, mem bool) {
	used := false
	usedMos := false
	for _, im := range f.Imports {
		p, _ := strconv.Unquote(im.Path.Value)
		if np, ok := importMap[p]; ok {
			im.Path.Value = strconv.Quote(np)
			if im.Name == nil {
				im.Name = id(importName[p])
			}
		}
	}
	post := func(c *astutil.Cursor) bool {
		if mem {
			if e, ok := c.Node().(ast.Expr); ok {
				mk, isMapOperand := in.mapAcc[e]
				if k, ok := in.decide[e]; ok {
					delete(in.decide, e)
					used = true
					var w ast.Expr = in.wrap(e, k)
					if isMapOperand {
						delete(in.mapAcc, e)
						w = in.wrapMap(e, w, mk)
					}
					c.Replace(w)
					return true
				}
				if isMapOperand {
					delete(in.mapAcc, e)
					used = true
					c.Replace(in.wrapMap(e, e, mk))
					return true
				}
			}
		}
		switch n := c.Node().(type) {
		case *ast.SelectorExpr:
			if id, ok := n.X.(*ast.Ident); ok && mosFuncs[n.Sel.Name] {
				if pn, ok := in.info.Uses[id].(*types.PkgName); ok && pn.Imported().Path() == "os" {
					n.X = ast.NewIdent("verifmos")
					usedMos = true
				}
			}
		case *ast.ChanType:
			used = true
			c.Replace(chanType(n))
		case *ast.RangeStmt:
			if in.rangeCh[n] {
				used = true
				c.Replace(rangeChan(n))
			}
		case *ast.CallExpr:
			if k, ok := in.lenCap[n]; ok {
				m := "Len"
				if k == "cap" {
					m = "Cap"
				}
				c.Replace(call(&ast.SelectorExpr{X: n.Args[0], Sel: id(m)}))
				return true
			}
			if fn, ok := n.Fun.(*ast.Ident); ok {
				if fn.Name == "make" && len(n.Args) >= 1 {
					if st, ok := n.Args[0].(*ast.StarExpr); ok {
						if ix, ok := st.X.(*ast.IndexExpr); ok {
							if s, ok := ix.X.(*ast.SelectorExpr); ok && s.Sel.Name == "Chan" {
								var capE ast.Expr = intLit(0)
								if len(n.Args) > 1 {
									capE = n.Args[1]
								}
								used = true
								c.Replace(call(&ast.IndexExpr{X: sel("mc", "NewChan"), Index: ix.Index}, capE))
							}
						}
					}
				}
				if fn.Name == "close" && len(n.Args) == 1 {
					c.Replace(call(&ast.SelectorExpr{X: n.Args[0], Sel: id("Close")}))
				}
			}
		case *ast.SendStmt:
			c.Replace(&ast.ExprStmt{X: call(&ast.SelectorExpr{X: n.Chan, Sel: id("Send")}, n.Value)})
		case *ast.UnaryExpr:
			if n.Op == token.ARROW {
				c.Replace(call(&ast.SelectorExpr{X: n.X, Sel: id("Recv1")}))
			}
		case *ast.AssignStmt:
			if len(n.Lhs) == 2 && len(n.Rhs) == 1 {
				if ce, ok := n.Rhs[0].(*ast.CallExpr); ok {
					if se, ok := ce.Fun.(*ast.SelectorExpr); ok && se.Sel.Name == "Recv1" && len(ce.Args) == 0 {
						se.Sel = id("Recv")
					}
				}
			}
		case *ast.GoStmt:
			used = true
			c.Replace(goStmt(n))
		case *ast.SelectStmt:
			used = true
			c.Replace(selectStmt(n))
		}
		return true
	}
	astutil.Apply(f, nil, post)
	if used {
		astutil.AddNamedImport(fset, f, "mc", mcPath)
	}
	if usedMos {
		astutil.AddNamedImport(fset, f, "verifmos", mcPath+"/mos")
		if !astutil.UsesImport(f, "os") {
			astutil.DeleteImport(fset, f, "os")
		}
	}
}

// rangeChan turns `for v := range ch { body }` into a loop over Recv.
func rangeChan(r *ast.RangeStmt) ast.Stmt {
	cn, okn := fresh("c"), fresh("ok")
	var key ast.Expr = id("_")
	tok := token.DEFINE
	if r.Key != nil {
		key = r.Key
		tok = r.Tok
	}
	recv := &ast.AssignStmt{Lhs: []ast.Expr{key, id(okn)}, Tok: tok, Rhs: []ast.Expr{call(&ast.SelectorExpr{X: id(cn), Sel: id("Recv")})}}
	if tok == token.ASSIGN {
		// `for v = range ch`: ok must be declared separately
		recv = &ast.AssignStmt{Lhs: []ast.Expr{key, id(okn)}, Tok: token.ASSIGN, Rhs: recv.Rhs}
	}
	brk := &ast.IfStmt{Cond: &ast.UnaryExpr{Op: token.NOT, X: id(okn)}, Body: &ast.BlockStmt{List: []ast.Stmt{&ast.BranchStmt{Tok: token.BREAK}}}}
	body := append([]ast.Stmt{recv, brk}, r.Body.List...)
	pre := []ast.Stmt{&ast.AssignStmt{Lhs: []ast.Expr{id(cn)}, Tok: token.DEFINE, Rhs: []ast.Expr{r.X}}}
	if tok == token.ASSIGN {
		pre = append(pre, &ast.DeclStmt{Decl: &ast.GenDecl{Tok: token.VAR, Specs: []ast.Spec{&ast.ValueSpec{Names: []*ast.Ident{id(okn)}, Type: id("bool")}}}})
	}
	loop := &ast.ForStmt{Body: &ast.BlockStmt{List: body}}
	return &ast.BlockStmt{List: append(pre, loop)}
}

func goStmt(g *ast.GoStmt) ast.Stmt {
	ce := g.Call
	if fl, ok := ce.Fun.(*ast.FuncLit); ok && len(ce.Args) == 0 {
		return &ast.ExprStmt{X: call(sel("mc", "Go"), fl)}
	}
	var stmts []ast.Stmt
	fn := fresh("f")
	stmts = append(stmts, &ast.AssignStmt{Lhs: []ast.Expr{id(fn)}, Tok: token.DEFINE, Rhs: []ast.Expr{ce.Fun}})
	var args []ast.Expr
	for _, a := range ce.Args {
		an := fresh("a")
		stmts = append(stmts, &ast.AssignStmt{Lhs: []ast.Expr{id(an)}, Tok: token.DEFINE, Rhs: []ast.Expr{a}})
		args = append(args, id(an))
	}
	inner := &ast.CallExpr{Fun: id(fn), Args: args, Ellipsis: ce.Ellipsis}
	fl := &ast.FuncLit{Type: &ast.FuncType{Params: &ast.FieldList{}}, Body: &ast.BlockStmt{List: []ast.Stmt{&ast.ExprStmt{X: inner}}}}
	stmts = append(stmts, &ast.ExprStmt{X: call(sel("mc", "Go"), fl)})
	return &ast.BlockStmt{List: stmts}
}

func selectStmt(s *ast.SelectStmt) ast.Stmt {
	var pre []ast.Stmt
	var cases []ast.Expr
	var clauses []ast.Stmt
	hasDef := false
	sname := fresh("s")
	idx := 0
	for _, cl := range s.Body.List {
		cc := cl.(*ast.CommClause)
		if cc.Comm == nil {
			hasDef = true
			clauses = append(clauses, &ast.CaseClause{List: []ast.Expr{&ast.UnaryExpr{Op: token.SUB, X: intLit(1)}}, Body: cc.Body})
			continue
		}
		cn := fresh("c")
		body := cc.Body
		switch cm := cc.Comm.(type) {
		case *ast.ExprStmt:
			ce := unparen(cm.X).(*ast.CallExpr)
			se := ce.Fun.(*ast.SelectorExpr)
			pre = append(pre, &ast.AssignStmt{Lhs: []ast.Expr{id(cn)}, Tok: token.DEFINE, Rhs: []ast.Expr{se.X}})
			if se.Sel.Name == "Send" {
				cases = append(cases, call(sel("mc", "SendCase"), id(cn), ce.Args[0]))
			} else {
				cases = append(cases, call(sel("mc", "RecvCase"), id(cn)))
			}
		case *ast.AssignStmt:
			ce := unparen(cm.Rhs[0]).(*ast.CallExpr)
			se := ce.Fun.(*ast.SelectorExpr)
			pre = append(pre, &ast.AssignStmt{Lhs: []ast.Expr{id(cn)}, Tok: token.DEFINE, Rhs: []ast.Expr{se.X}})
			cases = append(cases, call(sel("mc", "RecvCase"), id(cn)))
			lhs := cm.Lhs
			if len(lhs) == 1 {
				lhs = []ast.Expr{lhs[0], id("_")}
			}
			bind := &ast.AssignStmt{Lhs: lhs, Tok: cm.Tok, Rhs: []ast.Expr{call(sel("mc", "RecvResult"), id(cn), id(sname))}}
			body = append([]ast.Stmt{bind}, body...)
		}
		clauses = append(clauses, &ast.CaseClause{List: []ast.Expr{intLit(idx)}, Body: body})
		idx++
	}
	// Go's terminating-statement analysis: a select whose clauses all return is terminating, a switch is only
	// if it has a default clause. Idx is always one of the emitted values, so one clause can safely be the default:
	// the select's own default if it has one, else the last communication clause.
	if len(clauses) > 0 {
		def := len(clauses) - 1
		for i, c := range clauses {
			cc := c.(*ast.CaseClause)
			if u, ok := cc.List[0].(*ast.UnaryExpr); ok && u.Op == token.SUB {
				def = i
			}
		}
		clauses[def].(*ast.CaseClause).List = nil
	}
	args := []ast.Expr{id(strconv.FormatBool(hasDef))}
	args = append(args, cases...)
	sw := &ast.SwitchStmt{
		Init: &ast.AssignStmt{Lhs: []ast.Expr{id(sname)}, Tok: token.DEFINE, Rhs: []ast.Expr{call(sel("mc", "Select"), args...)}},
		Tag:  &ast.SelectorExpr{X: id(sname), Sel: id("Idx")},
		Body: &ast.BlockStmt{List: clauses},
	}
	return &ast.BlockStmt{List: append(pre, sw)}
}

var workerConst = regexp.MustCompile(`(?m)^const (worker[A-Za-z0-9_]*Num)\s*=\s*([0-9]+)\s*$`)

func main() {
	dir, err := filepath.Abs(os.Args[1])
	if err != nil {
		panic(err)
	}
	baseDir = dir
	mem := len(os.Args) > 2 && os.Args[2] == "mem"
	cfg := &packages.Config{Mode: packages.NeedName | packages.NeedFiles | packages.NeedSyntax | packages.NeedTypes | packages.NeedTypesInfo | packages.NeedImports | packages.NeedDeps, Dir: dir}
	pkgs, err := packages.Load(cfg, ".", "./markdown")
	if err != nil {
		fmt.Println("MCGEN-LOAD-FAILED", err)
		os.Exit(3)
	}
	// a worker-count constant that the tree uses where only a constant will do (an array length, another constant's
	// value) stays a constant: that stage then always runs with its built-in number of workers
	constOnly := map[string]bool{}
	for _, p := range pkgs {
		for _, f := range p.Syntax {
			mark := func(e ast.Expr) {
				ast.Inspect(e, func(n ast.Node) bool {
					if idn, ok := n.(*ast.Ident); ok && strings.HasPrefix(idn.Name, "worker") && strings.HasSuffix(idn.Name, "Num") {
						constOnly[idn.Name] = true
					}
					return true
				})
			}
			ast.Inspect(f, func(n ast.Node) bool {
				switch x := n.(type) {
				case *ast.ArrayType:
					if x.Len != nil {
						mark(x.Len)
					}
				case *ast.GenDecl:
					if x.Tok == token.CONST {
						for _, sp := range x.Specs {
							for _, v := range sp.(*ast.ValueSpec).Values {
								mark(v)
							}
						}
					}
				}
				return true
			})
		}
	}
	for _, p := range pkgs {
		if len(p.Errors) > 0 {
			fmt.Println("MCGEN-LOAD-FAILED (the tree does not type-check):", p.Errors)
			os.Exit(3)
		}
		in := &instr{info: p.TypesInfo, pkg: p.Types, fset: p.Fset, decide: map[ast.Expr]memKind{}, rangeCh: map[*ast.RangeStmt]bool{}, lenCap: map[*ast.CallExpr]string{}, mapAcc: map[ast.Expr]memKind{}, captured: map[*types.Var]bool{}}
		if mem {
			for _, f := range p.Syntax {
				in.scanCaptured(f)
			}
		}
		for _, f := range p.Syntax {
			path := p.Fset.Position(f.Package).Filename
			in.prescan(f)
			if mem {
				in.scan(f)
				in.scanMaps(f)
			}
			transformFile(in, p.Fset, f, mem)
			var buf bytes.Buffer
			if err := format.Node(&buf, p.Fset, f); err != nil {
				fmt.Println("MCGEN-PRINT-FAILED", path, err)
				os.Exit(3)
			}
			out := buf.Bytes()
			out = workerConst.ReplaceAllFunc(out, func(m []byte) []byte {
				sm := workerConst.FindSubmatch(m)
				if constOnly[string(sm[1])] {
					return m
				}
				workerVars = append(workerVars, string(sm[1]))
				return []byte("var " + string(sm[1]) + " = " + string(sm[2]))
			})
			if err := os.WriteFile(path, out, 0o644); err != nil {
				panic(err)
			}
		}
	}
	// setter for the per-stage worker counts (package gtree)
	var sb strings.Builder
	sb.WriteString("//go:build !tinywasm\n\npackage gtree\n\n// VerifSetWorkers overrides the number of workers per pipeline stage (generated by mcgen).\nfunc VerifSetWorkers(m map[string]int) []string {\n\tvar names []string\n")
	for _, w := range workerVars {
		fmt.Fprintf(&sb, "\tnames = append(names, %q)\n\tif v, ok := m[%q]; ok {\n\t\t%s = v\n\t} else if v, ok := m[\"*\"]; ok {\n\t\t%s = v\n\t}\n", w, w, w, w)
	}
	sb.WriteString("\treturn names\n}\n")
	os.WriteFile(dir+"/verif_workers_gen.go", []byte(sb.String()), 0o644)

	sb.Reset()
	sb.WriteString("package mc\n\nfunc init() { Sites = []string{\n")
	for _, s := range sites {
		fmt.Fprintf(&sb, "\t%q,\n", s)
	}
	sb.WriteString("} }\n")
	os.WriteFile(dir+"/verifmc/sites.go", []byte(sb.String()), 0o644)
	fmt.Println("mcgen: sites:", len(sites), "worker vars:", workerVars)
}
