// Package mc is the controlled runtime of the stateless model checker: real
// goroutines, exactly one running at a time; every visible operation
// (channel op, select, lock, waitgroup, context cancel, yield, FS call) is a
// scheduling point at which the scheduler enumerates the enabled transitions
// and follows a recorded choice list. It is copied into the rewritten scratch
// copy of gtree as github.com/ddddddO/gtree/verifmc.
package mc

import (
	"fmt"
	"os"
	"runtime"
	"runtime/debug"
	"sort"
	"strconv"
	"strings"
	"sync"
	"unsafe"
)

type abortT struct{}

// Case is one communication case of a send/recv/select.
type Case struct {
	Send bool
	Ch   *Core
	Val  any
}

type op struct {
	comm    bool
	cases   []Case
	hasDef  bool
	enabled func() bool
	apply   func()
	idx     int
	val     any
	ok      bool
	panicv  string
	what    string
	pcs     [8]uintptr
	npcs    int
}

func resumeOp(what string) *op {
	return &op{enabled: func() bool { return true }, apply: func() {}, what: what}
}

type Thread struct {
	id   int
	wake chan struct{}
	pend *op
	done bool
	name string
	h    uint64
	nsp  uint64
	vc   VC
}

// Obj is the hashing / happens-before state of a synchronisation object.
type Obj struct {
	Hist uint64
	Sum  uint64
	reg  bool
	vc   VC
}

func Mix(a uint64, bs ...uint64) uint64 {
	h := a ^ 0x9e3779b97f4a7c15
	for _, b := range bs {
		h ^= b + 0x9e3779b97f4a7c15 + (h << 6) + (h >> 2)
		h *= 0xff51afd7ed558ccd
		h ^= h >> 33
	}
	return h
}

func (s *Sched) touch(o *Obj) {
	if !o.reg {
		o.reg = true
		s.objs = append(s.objs, o)
	}
}

// Ordered: the current thread performs an ordered operation on o.
// acquire kinds absorb the object's clock, others release into it.
func Ordered(o *Obj, kind uint64, acquire bool) {
	s := S
	if s == nil || s.aborting {
		return
	}
	s.touch(o)
	t := s.cur
	t.h = Mix(t.h, kind, o.Hist, o.Sum)
	o.Hist = t.h
	if acquire {
		t.acquire(o.vc)
	} else {
		o.vc = t.releaseInto(o.vc)
	}
}

// Commut: the current thread contributes commutatively (WaitGroup.Add/Done).
func Commut(o *Obj, kind uint64) {
	s := S
	if s == nil || s.aborting {
		return
	}
	s.touch(o)
	t := s.cur
	o.Sum += Mix(t.h, kind)
	t.h = Mix(t.h, kind, 77)
	o.vc = t.releaseInto(o.vc)
}

func (s *Sched) key() uint64 {
	th := s.kbuf[:0]
	for _, t := range s.threads {
		x := t.h
		if t.done {
			x = Mix(x, 999)
		} else if t.pend != nil {
			x = Mix(x, uint64(len(t.pend.what)))
		}
		th = append(th, x)
	}
	nt := len(th)
	for _, o := range s.objs {
		th = append(th, Mix(o.Hist, o.Sum))
	}
	a, b := th[:nt], th[nt:]
	sort.Slice(a, func(i, j int) bool { return a[i] < a[j] })
	sort.Slice(b, func(i, j int) bool { return b[i] < b[j] })
	k := uint64(nt)
	for _, x := range th {
		k = Mix(k, x)
	}
	if s.cur != nil && !s.cur.done {
		k = Mix(k, s.cur.h, 5) // which thread is running matters for what a "preemption" is
	}
	s.kbuf = th
	return k
}

// Point is one scheduling point of an execution.
type Point struct {
	N      int    // number of enabled transitions
	NCur   int    // how many of them belong to the thread that was running
	Chosen int    // which one was taken
	Key    uint64 // canonical state key before the transition (0 if hashing is off)
	Tid    int    // thread of the chosen transition
	What   string // operation kind of the chosen transition
}

type Blocked struct {
	Tid  int
	Name string
	What string
	Func string // innermost function of package gtree / markdown on the stack
	Pos  string
}

func (b Blocked) String() string {
	return fmt.Sprintf("t%d %s in %s (%s)", b.Tid, b.What, b.Func, b.Pos)
}

type Outcome struct {
	Deadlock bool
	Blocked  []Blocked
	MainDone bool
	Panic    string
	Horizon  bool
	Points   []Point
	Threads  int
	Races    map[string]int
	Diverged string
}

// End classifies how the execution ended.
func (o *Outcome) End() string {
	switch {
	case o.Diverged != "":
		return "diverged"
	case o.Panic != "":
		return "panic"
	case o.Horizon:
		return "horizon"
	case o.Deadlock && !o.MainDone:
		return "hang"
	case o.Deadlock:
		return "leak"
	}
	return "complete"
}

type Sched struct {
	threads  []*Thread
	cur      *Thread
	prefix   []int
	aborting bool
	finished bool
	resultc  chan struct{}
	out      Outcome
	maxSteps int
	realWG   sync.WaitGroup
	buf      []trans
	kbuf     []uint64
	objs     []*Obj
	shadow   map[unsafe.Pointer]*shadow
	policy   int
	rot      int
}

// S is the scheduler of the execution in progress (nil outside Run).
var S *Sched

// HashOn controls whether state keys are computed at every point.
var HashOn = true

func (s *Sched) newThread(name string, fn func()) *Thread {
	t := &Thread{id: len(s.threads), wake: make(chan struct{}, 1), name: name}
	if s.cur != nil {
		s.cur.nsp++
		t.h = Mix(s.cur.h, 1234, s.cur.nsp)
		t.vc = append(VC{}, s.cur.vc...)
		s.cur.tick()
	}
	t.pend = resumeOp("start")
	s.threads = append(s.threads, t)
	s.realWG.Add(1)
	go func() {
		defer s.realWG.Done()
		defer func() {
			r := recover()
			if _, ok := r.(abortT); ok || s.aborting {
				return
			}
			if r != nil {
				s.out.Panic = fmt.Sprintf("thread %d (%s): %v\n%s", t.id, t.name, r, trimStack(debug.Stack()))
				s.finish()
				return
			}
			t.done = true
			t.pend = nil
			if t.id == 0 {
				s.out.MainDone = true
			}
			s.schedule(t, true)
		}()
		<-t.wake
		if s.aborting {
			panic(abortT{})
		}
		fn()
	}()
	return t
}

func trimStack(b []byte) string {
	s := string(b)
	if len(s) > 2500 {
		s = s[:2500]
	}
	return s
}

type trans struct {
	t   *Thread
	ci  int // -2 simple op, -1 select default, >=0 case index
	u   *Thread
	uci int
}

func chanReady(c Case) bool {
	ch := c.Ch
	if c.Send {
		return ch.closed || len(ch.buf) < ch.cap
	}
	return len(ch.buf) > 0 || ch.closed
}

func (s *Sched) transitionsOf(t *Thread, out []trans) []trans {
	o := t.pend
	if o == nil {
		return out
	}
	if !o.comm {
		if o.enabled() {
			out = append(out, trans{t: t, ci: -2})
		}
		return out
	}
	n0 := len(out)
	for i, c := range o.cases {
		ch := c.Ch
		if ch == nil {
			continue
		}
		if chanReady(c) {
			out = append(out, trans{t: t, ci: i})
			continue
		}
		for _, u := range s.threads {
			if u == t || u.pend == nil || !u.pend.comm || u.done {
				continue
			}
			for j, uc := range u.pend.cases {
				if uc.Ch == ch && uc.Send != c.Send {
					// a rendezvous is listed once: under the running thread if it takes part, else under the lower id
					if t == s.cur || (u != s.cur && t.id < u.id) {
						out = append(out, trans{t: t, ci: i, u: u, uci: j})
					}
				}
			}
		}
	}
	if len(out) == n0 && o.hasDef && !s.anyReady(t) {
		out = append(out, trans{t: t, ci: -1})
	}
	return out
}

func (s *Sched) anyReady(t *Thread) bool {
	for _, c := range t.pend.cases {
		ch := c.Ch
		if ch == nil {
			continue
		}
		if chanReady(c) {
			return true
		}
		for _, u := range s.threads {
			if u == t || u.pend == nil || !u.pend.comm || u.done {
				continue
			}
			for _, uc := range u.pend.cases {
				if uc.Ch == ch && uc.Send != c.Send {
					return true
				}
			}
		}
	}
	return false
}

func (s *Sched) apply(tr trans) {
	t := tr.t
	o := t.pend
	t.pend = nil
	if !o.comm {
		o.apply()
		return
	}
	if tr.ci == -1 {
		o.idx = -1
		t.h = Mix(t.h, 4242)
		return
	}
	c := o.cases[tr.ci]
	o.idx = tr.ci
	ch := c.Ch
	s.touch(&ch.O)
	if tr.u != nil {
		x := Mix(t.h, tr.u.h, ch.O.Hist, uint64(tr.ci), uint64(tr.uci))
		t.h, tr.u.h, ch.O.Hist = Mix(x, 1), Mix(x, 2), x
		j := join(append(VC{}, t.vc...), tr.u.vc)
		t.vc, tr.u.vc = append(VC{}, j...), append(VC{}, j...)
		t.tick()
		tr.u.tick()
		uo := tr.u.pend
		tr.u.pend = resumeOp("resume")
		uo.idx = tr.uci
		if c.Send {
			uo.val, uo.ok = c.Val, true
		} else {
			o.val, o.ok = uo.cases[tr.uci].Val, true
		}
		return
	}
	t.h = Mix(t.h, uint64(tr.ci), ch.O.Hist)
	ch.O.Hist = t.h
	if c.Send {
		if ch.closed {
			o.panicv = "send on closed channel"
			return
		}
		ch.buf = append(ch.buf, c.Val)
		ch.bufvc = append(ch.bufvc, append(VC{}, t.vc...))
		t.tick()
	} else if len(ch.buf) > 0 {
		o.val, o.ok = ch.buf[0], true
		ch.buf = ch.buf[1:]
		t.acquire(ch.bufvc[0])
		ch.bufvc = ch.bufvc[1:]
	} else {
		o.val, o.ok = nil, false
		t.acquire(ch.O.vc)
	}
}

func (s *Sched) finish() {
	if s.finished {
		return
	}
	s.finished = true
	close(s.resultc)
}

func (s *Sched) describeBlocked(u *Thread) Blocked {
	b := Blocked{Tid: u.id, Name: u.name, What: "?"}
	if u.pend == nil {
		return b
	}
	b.What = u.pend.what
	if u.pend.comm && len(u.pend.cases) > 0 {
		var parts []string
		for _, c := range u.pend.cases {
			d := "nil chan"
			if c.Ch != nil {
				d = c.Ch.Describe()
			}
			if c.Send {
				parts = append(parts, "send "+d)
			} else {
				parts = append(parts, "recv "+d)
			}
		}
		b.What = u.pend.what + "[" + strings.Join(parts, ", ") + "]"
	}
	if u.pend.npcs > 0 {
		fr := runtime.CallersFrames(u.pend.pcs[:u.pend.npcs])
		for {
			f, more := fr.Next()
			if strings.Contains(f.Function, "ddddddO/gtree") && !strings.Contains(f.Function, "/verifmc") {
				fn := f.Function
				if i := strings.LastIndex(fn, "/"); i >= 0 {
					fn = fn[i+1:]
				}
				// strip closure suffixes such as .func1.2 -> keep the named function and one level
				b.Func = fn
				file := f.File
				if i := strings.LastIndex(file, "/"); i >= 0 {
					file = file[i+1:]
				}
				b.Pos = fmt.Sprintf("%s:%d", file, f.Line)
				break
			}
			if !more {
				break
			}
		}
	}
	return b
}

// schedule is called by the running thread t after posting its pending op (or on exit).
func (s *Sched) schedule(t *Thread, exiting bool) {
	if s.aborting {
		if exiting {
			return
		}
		panic(abortT{})
	}
	ts := s.buf[:0]
	ncur := 0
	if s.cur != nil && !s.cur.done {
		ts = s.transitionsOf(s.cur, ts)
		ncur = len(ts)
	}
	switch s.policy {
	case 1: // highest id first
		for i := len(s.threads) - 1; i >= 0; i-- {
			if u := s.threads[i]; u != s.cur && !u.done {
				ts = s.transitionsOf(u, ts)
			}
		}
	case 2: // rotate the starting thread after every step
		n := len(s.threads)
		s.rot++
		for k := 0; k < n; k++ {
			if u := s.threads[(k+s.rot)%n]; u != s.cur && !u.done {
				ts = s.transitionsOf(u, ts)
			}
		}
	default:
		for _, u := range s.threads {
			if u != s.cur && !u.done {
				ts = s.transitionsOf(u, ts)
			}
		}
	}
	s.buf = ts
	if len(ts) == 0 {
		alive := false
		for _, u := range s.threads {
			if !u.done {
				alive = true
				s.out.Blocked = append(s.out.Blocked, s.describeBlocked(u))
			}
		}
		s.out.Deadlock = alive
		s.finish()
		if !exiting {
			s.park(t)
		}
		return
	}
	if len(s.out.Points) >= s.maxSteps {
		s.out.Horizon = true
		s.finish()
		if !exiting {
			s.park(t)
		}
		return
	}
	choice := 0
	if k := len(s.out.Points); k < len(s.prefix) {
		choice = s.prefix[k]
		if choice >= len(ts) {
			s.out.Diverged = fmt.Sprintf("replay divergence at point %d: choice %d of %d", k, choice, len(ts))
			s.finish()
			if !exiting {
				s.park(t)
			}
			return
		}
	}
	var key uint64
	if HashOn {
		key = s.key()
	}
	tr := ts[choice]
	s.out.Points = append(s.out.Points, Point{N: len(ts), NCur: ncur, Chosen: choice, Key: key, Tid: tr.t.id, What: tr.t.pend.what})
	next := tr.t
	s.cur = next
	s.apply(tr)
	if next == t && !exiting {
		return
	}
	next.wake <- struct{}{}
	if !exiting {
		s.park(t)
	}
}

func (s *Sched) park(t *Thread) {
	<-t.wake
	if s.aborting {
		panic(abortT{})
	}
}

func point(o *op) {
	s := S
	if s.aborting {
		panic(abortT{})
	}
	o.npcs = runtime.Callers(3, o.pcs[:])
	t := s.cur
	t.pend = o
	s.schedule(t, false)
	if o.panicv != "" {
		panic(o.panicv)
	}
}

// Simple performs a non-channel visible operation. Outside Run it applies directly
// (so sequential code of the rewritten copy can also be run free).
func Simple(what string, enabled func() bool, apply func()) {
	if S == nil {
		apply()
		return
	}
	if S.aborting {
		return
	}
	point(&op{enabled: enabled, apply: apply, what: what})
}

// Yield is a scheduling point with no effect (slow reader / writer / callback, FS call).
func Yield() { Simple("yield", func() bool { return true }, func() {}) }

// YieldAs is Yield with a label (shown in traces).
func YieldAs(what string) { Simple(what, func() bool { return true }, func() {}) }

// Go starts a controlled thread.
func Go(fn func()) {
	s := S
	if s == nil {
		panic("mc.Go outside mc.Run: concurrent code of the rewritten copy must run under the scheduler")
	}
	if s.aborting {
		return
	}
	s.newThread("go", fn)
}

// OnRun registers a hook that runs at the start of every execution (shim objects with process-wide lifetime,
// such as sync.Pool stand-ins, forget their contents there: executions must not influence each other).
func OnRun(f func()) { runHooks = append(runHooks, f) }

var runHooks []func()

var epoch uint64

// Epoch numbers the executions (1, 2, ...). Shim objects with process-wide lifetime (package-level sync.Once,
// sync.Pool) tag their state with it and start every execution as in a fresh process.
func Epoch() uint64 { return epoch }

// Run executes body once under the scheduler, following prefix and then the base policy.
func Run(prefix []int, policy int, maxSteps int, body func()) Outcome {
	epoch++
	for _, h := range runHooks {
		h()
	}
	s := &Sched{prefix: prefix, resultc: make(chan struct{}), maxSteps: maxSteps, shadow: map[unsafe.Pointer]*shadow{}, policy: policy}
	S = s
	t0 := s.newThread("main", body)
	t0.pend = nil
	s.cur = t0
	t0.wake <- struct{}{}
	<-s.resultc
	s.aborting = true
	for _, t := range s.threads {
		select {
		case t.wake <- struct{}{}:
		default:
		}
	}
	s.realWG.Wait()
	s.out.Threads = len(s.threads)
	S = nil
	return s.out
}

// CurrentThread returns the id of the running controlled thread (-1 outside Run).
func CurrentThread() int {
	if S == nil || S.cur == nil {
		return -1
	}
	return S.cur.id
}

// ---- channels

type Core struct {
	cap    int
	buf    []any
	closed bool
	O      Obj
	bufvc  []VC
	madePC uintptr
	elem   string
}

// Describe names a channel by element type, capacity and the function that made it.
func (c *Core) Describe() string {
	fn := "?"
	if c.madePC != 0 {
		f, _ := runtime.CallersFrames([]uintptr{c.madePC}).Next()
		fn = f.Function
		if i := strings.LastIndex(fn, "/"); i >= 0 {
			fn = fn[i+1:]
		}
	}
	return fmt.Sprintf("chan %s cap=%d made in %s", c.elem, c.cap, fn)
}

type Chan[T any] struct{ c Core }

func NewChan[T any](n int) *Chan[T] {
	var pcs [1]uintptr
	runtime.Callers(2, pcs[:])
	var z T
	return &Chan[T]{c: Core{cap: n, madePC: pcs[0], elem: fmt.Sprintf("%T", &z)[1:]}}
}

func core[T any](c *Chan[T]) *Core {
	if c == nil {
		return nil
	}
	return &c.c
}

func needSched() {
	if S == nil {
		panic("channel operation outside mc.Run")
	}
	if S.aborting {
		panic(abortT{})
	}
}

func (c *Chan[T]) Send(v T) {
	needSched()
	point(&op{comm: true, cases: []Case{{Send: true, Ch: core(c), Val: v}}, what: "send"})
}

func (c *Chan[T]) Recv() (T, bool) {
	needSched()
	o := &op{comm: true, cases: []Case{{Ch: core(c)}}, what: "recv"}
	point(o)
	var z T
	if o.val != nil {
		z = o.val.(T)
	}
	return z, o.ok
}

func (c *Chan[T]) Recv1() T { v, _ := c.Recv(); return v }

func (c *Chan[T]) Len() int {
	if c == nil {
		return 0
	}
	return len(c.c.buf)
}
func (c *Chan[T]) Cap() int {
	if c == nil {
		return 0
	}
	return c.c.cap
}

func (c *Chan[T]) Close() {
	if c == nil {
		panic("close of nil channel")
	}
	// (the effect is applied by whichever thread runs the scheduler; the panic belongs to the closing thread)
	twice := false
	Simple("close", func() bool { return true }, func() {
		if c.c.closed {
			twice = true
			return
		}
		c.c.closed = true
		Ordered(&c.c.O, 30, false)
	})
	if twice {
		panic("close of closed channel")
	}
}

type Sel struct {
	Idx int
	val any
	ok  bool
}

func RecvCase[T any](c *Chan[T]) Case      { return Case{Ch: core(c)} }
func SendCase[T any](c *Chan[T], v T) Case { return Case{Send: true, Ch: core(c), Val: v} }
func RecvResult[T any](c *Chan[T], s Sel) (T, bool) {
	var z T
	if s.val != nil {
		z = s.val.(T)
	}
	return z, s.ok
}

func Select(hasDef bool, cases ...Case) Sel {
	needSched()
	o := &op{comm: true, cases: cases, hasDef: hasDef, what: "select"}
	point(o)
	return Sel{Idx: o.idx, val: o.val, ok: o.ok}
}

// CloseRaw closes a channel without a scheduling point (used inside atomic ops such as cancel).
func CloseRaw[T any](c *Chan[T]) {
	if c.c.closed {
		return
	}
	c.c.closed = true
	Ordered(&c.c.O, 31, false)
}

// IsClosed reports the closed flag without a scheduling point (harness use).
func IsClosed[T any](c *Chan[T]) bool { return c != nil && c.c.closed }

// Param lets a scenario choose the number of workers per stage (default: what the code says).
func Param(name string, def int) int {
	if v := os.Getenv("MC_" + name); v != "" {
		if n, err := strconv.Atoi(v); err == nil {
			return n
		}
	}
	if v, ok := Params[name]; ok {
		return v
	}
	if v, ok := Params["*"]; ok {
		return v
	}
	return def
}

// Params is set by the harness before each scenario.
var Params = map[string]int{}
