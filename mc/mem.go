package mc

import (
	"fmt"
	"unsafe"
)

var Sites []string
var MemOn bool

// AddSite registers a hand-instrumented location (harness reader/writer/callback state).
func AddSite(name string) int {
	Sites = append(Sites, name)
	return len(Sites) - 1
}

type VC []uint32

func join(a, b VC) VC {
	if len(b) > len(a) {
		n := make(VC, len(b))
		copy(n, a)
		a = n
	}
	for i, x := range b {
		if x > a[i] {
			a[i] = x
		}
	}
	return a
}

func (t *Thread) tick() {
	for len(t.vc) <= t.id {
		t.vc = append(t.vc, 0)
	}
	t.vc[t.id]++
}

func (t *Thread) acquire(c VC) { t.vc = join(t.vc, c) }
func (t *Thread) releaseInto(c VC) VC {
	c = join(c, t.vc)
	t.tick()
	return c
}

type access struct {
	tid  int
	clk  uint32
	site int
}

type shadow struct {
	w     access
	hasW  bool
	reads []access
}

type Race struct{ A, B string }

func (s *Sched) hb(a access, t *Thread) bool {
	return a.tid == t.id || (a.tid < len(t.vc) && a.clk <= t.vc[a.tid])
}

func (s *Sched) access(p unsafe.Pointer, site int, write bool) {
	t := s.cur
	if t == nil {
		return
	}
	for len(t.vc) <= t.id {
		t.vc = append(t.vc, 0)
	}
	if t.vc[t.id] == 0 {
		t.vc[t.id] = 1
	}
	sh := s.shadow[p]
	if sh == nil {
		sh = &shadow{}
		s.shadow[p] = sh
	}
	me := access{t.id, t.vc[t.id], site}
	if sh.hasW && !s.hb(sh.w, t) {
		s.race(sh.w, me, "write", map[bool]string{true: "write", false: "read"}[write])
	}
	if write {
		for _, r := range sh.reads {
			if !s.hb(r, t) {
				s.race(r, me, "read", "write")
			}
		}
		sh.w, sh.hasW = me, true
		sh.reads = sh.reads[:0]
		return
	}
	for i, r := range sh.reads {
		if r.tid == t.id {
			sh.reads[i] = me
			return
		}
	}
	sh.reads = append(sh.reads, me)
}

func (s *Sched) race(a, b access, ka, kb string) {
	x, y := ka+"@"+Sites[a.site], kb+"@"+Sites[b.site]
	if x > y {
		x, y = y, x
	}
	k := fmt.Sprintf("%s <-> %s", x, y)
	if s.out.Races == nil {
		s.out.Races = map[string]int{}
	}
	s.out.Races[k]++
}

func R[T any](p *T, site int) *T {
	if MemOn && S != nil && !S.aborting {
		S.access(unsafe.Pointer(p), site, false)
	}
	return p
}

func W[T any](p *T, site int) *T {
	if MemOn && S != nil && !S.aborting {
		S.access(unsafe.Pointer(p), site, true)
	}
	return p
}

// MR / MW record a read / write of a map object (keyed by the map's header pointer, so every variable that
// holds the same map maps to the same location). Go's runtime aborts the process on concurrent map access it
// notices; here an unordered pair is reported as a race on a "map:" site.
func MR[M ~map[K]V, K comparable, V any](m M, site int) M {
	if MemOn && S != nil && !S.aborting && m != nil {
		S.access(*(*unsafe.Pointer)(unsafe.Pointer(&m)), site, false)
	}
	return m
}

func MW[M ~map[K]V, K comparable, V any](m M, site int) M {
	if MemOn && S != nil && !S.aborting && m != nil {
		S.access(*(*unsafe.Pointer)(unsafe.Pointer(&m)), site, true)
	}
	return m
}
