// Package mos replaces "os" in the files of the rewritten copy that touch the file system:
// every call is a scheduling point and the k-th call can be made to fail (fault injection).
package mos

import (
	"fmt"
	"io/fs"
	"os"
	"syscall"

	mc "github.com/ddddddO/gtree/verifmc"
)

type File = os.File
type FileMode = os.FileMode
type FileInfo = os.FileInfo
type PathError = os.PathError

var (
	ErrNotExist = os.ErrNotExist
	ErrExist    = os.ErrExist
	Stdout      = os.Stdout
	Stderr      = os.Stderr
	Stdin       = os.Stdin
)

// Calls counts FS calls of the current run; FailAt (1-based) makes that call fail with EIO.
var (
	Calls  int
	FailAt int
	Log    []string
)

func Reset(failAt int) { Calls, FailAt, Log, Errno, Persist, Budget = 0, failAt, nil, syscall.EIO, false, 0 }

// Errno is what the failing call reports (EIO unless set); Persist makes every call from FailAt on fail (a resource
// that stays exhausted); Budget > 0 ends a run whose number of file-system calls passes it (an operation that keeps
// retrying a failing call would otherwise never end when it runs outside the scheduler).
var (
	Errno   = syscall.EIO
	Persist bool
	Budget  int
)

// ResetKind is Reset with the kind of fault: errno by name ("" = EIO) and persistence.
func ResetKind(failAt int, errno string, persist bool) {
	Reset(failAt)
	Persist = persist
	switch errno {
	case "EEXIST":
		Errno = syscall.EEXIST
	case "EMFILE":
		Errno = syscall.EMFILE
	case "EACCES":
		Errno = syscall.EACCES
	case "ENOSPC":
		Errno = syscall.ENOSPC
	case "EINTR":
		Errno = syscall.EINTR
	case "EAGAIN":
		Errno = syscall.EAGAIN
	}
}

func step(name, path string) error {
	mc.YieldAs("fs:" + name)
	Calls++
	if len(Log) < 64 {
		Log = append(Log, name+" "+path)
	}
	if Budget > 0 && Calls > Budget {
		panic(fmt.Sprintf("verif: more than %d file-system calls: the operation keeps retrying a call that keeps failing (%s %s)", Budget, name, path))
	}
	if FailAt > 0 && (Calls == FailAt || (Persist && Calls > FailAt)) {
		return &os.PathError{Op: name, Path: path, Err: Errno}
	}
	return nil
}

func Stat(name string) (os.FileInfo, error) {
	if err := step("stat", name); err != nil {
		return nil, err
	}
	return os.Stat(name)
}
func Lstat(name string) (os.FileInfo, error) {
	if err := step("lstat", name); err != nil {
		return nil, err
	}
	return os.Lstat(name)
}
func MkdirAll(path string, perm os.FileMode) error {
	if err := step("mkdirall", path); err != nil {
		return err
	}
	return os.MkdirAll(path, perm)
}
func Mkdir(path string, perm os.FileMode) error {
	if err := step("mkdir", path); err != nil {
		return err
	}
	return os.Mkdir(path, perm)
}
func Create(name string) (*os.File, error) {
	if err := step("create", name); err != nil {
		return nil, err
	}
	return os.Create(name)
}
func OpenFile(name string, flag int, perm os.FileMode) (*os.File, error) {
	if err := step("openfile", name); err != nil {
		return nil, err
	}
	return os.OpenFile(name, flag, perm)
}
func WriteFile(name string, data []byte, perm os.FileMode) error {
	if err := step("writefile", name); err != nil {
		return err
	}
	return os.WriteFile(name, data, perm)
}
func Remove(name string) error {
	if err := step("remove", name); err != nil {
		return err
	}
	return os.Remove(name)
}
func RemoveAll(name string) error {
	if err := step("removeall", name); err != nil {
		return err
	}
	return os.RemoveAll(name)
}
func ReadDir(name string) ([]os.DirEntry, error) {
	if err := step("readdir", name); err != nil {
		return nil, err
	}
	return os.ReadDir(name)
}
func DirFS(dir string) fs.FS {
	mc.YieldAs("fs:dirfs")
	return os.DirFS(dir)
}
func IsNotExist(err error) bool { return os.IsNotExist(err) }
func IsExist(err error) bool    { return os.IsExist(err) }
func Getwd() (string, error)    { return os.Getwd() }

// plain pass-throughs (no scheduling point, no fault): whatever else of package os a tree may use
type DirEntry = os.DirEntry
type Signal = os.Signal
type Process = os.Process

const (
	O_RDONLY      = os.O_RDONLY
	O_WRONLY      = os.O_WRONLY
	O_RDWR        = os.O_RDWR
	O_APPEND      = os.O_APPEND
	O_CREATE      = os.O_CREATE
	O_EXCL        = os.O_EXCL
	O_TRUNC       = os.O_TRUNC
	ModePerm      = os.ModePerm
	ModeDir       = os.ModeDir
	PathSeparator = os.PathSeparator
	DevNull       = os.DevNull
)

var (
	ErrPermission = os.ErrPermission
	ErrInvalid    = os.ErrInvalid
	ErrClosed     = os.ErrClosed
	Args          = os.Args
)

func Open(name string) (*os.File, error) {
	if err := step("open", name); err != nil {
		return nil, err
	}
	return os.Open(name)
}
func ReadFile(name string) ([]byte, error) {
	if err := step("readfile", name); err != nil {
		return nil, err
	}
	return os.ReadFile(name)
}
func Rename(a, b string) error {
	if err := step("rename", a); err != nil {
		return err
	}
	return os.Rename(a, b)
}
func Chmod(name string, m os.FileMode) error {
	if err := step("chmod", name); err != nil {
		return err
	}
	return os.Chmod(name, m)
}
func Symlink(a, b string) error {
	if err := step("symlink", b); err != nil {
		return err
	}
	return os.Symlink(a, b)
}
func MkdirTemp(dir, pattern string) (string, error) {
	if err := step("mkdirtemp", dir); err != nil {
		return "", err
	}
	return os.MkdirTemp(dir, pattern)
}
func Readlink(name string) (string, error) { return os.Readlink(name) }
func Getenv(k string) string               { return os.Getenv(k) }
func LookupEnv(k string) (string, bool)    { return os.LookupEnv(k) }
func Chdir(d string) error                 { return os.Chdir(d) }
func TempDir() string                      { return os.TempDir() }
func SameFile(a, b os.FileInfo) bool       { return os.SameFile(a, b) }
func IsPermission(err error) bool          { return os.IsPermission(err) }
func UserHomeDir() (string, error)         { return os.UserHomeDir() }
func Exit(code int)                        { panic(fmt.Sprintf("os.Exit(%d) called by library code", code)) }
