// Package mtime replaces "time" in the rewritten copy. Durations and instants are the real ones; anything that
// WAITS is turned into nondeterminism the scheduler owns: Sleep is a scheduling point, a timer may fire at any
// instant (a helper thread whose single step delivers the tick), so "the timeout lands first" and "the work
// finishes first" are both explored. There is no real clock in the explored behaviour.
package mtime

import (
	"time"

	mc "github.com/ddddddO/gtree/verifmc"
)

type Duration = time.Duration
type Time = time.Time
type Month = time.Month
type Weekday = time.Weekday
type Location = time.Location

const (
	Nanosecond  = time.Nanosecond
	Microsecond = time.Microsecond
	Millisecond = time.Millisecond
	Second      = time.Second
	Minute      = time.Minute
	Hour        = time.Hour
	RFC3339     = time.RFC3339
)

var UTC = time.UTC

func Now() Time                                { return time.Time{} } // a fixed instant: results must not depend on the clock
func Since(t Time) Duration                    { return 0 }
func Until(t Time) Duration                    { return 0 }
func Unix(sec, nsec int64) Time                { return time.Unix(sec, nsec) }
func ParseDuration(s string) (Duration, error) { return time.ParseDuration(s) }

func Sleep(d Duration) { mc.YieldAs("sleep") }

func After(d Duration) *mc.Chan[Time] {
	c := mc.NewChan[Time](1)
	if mc.S != nil {
		mc.Go(func() { c.Send(Time{}) })
	}
	return c
}

type Timer struct {
	C       *mc.Chan[Time]
	stopped bool
	fired   bool
}

func NewTimer(d Duration) *Timer {
	t := &Timer{C: mc.NewChan[Time](1)}
	if mc.S != nil {
		mc.Go(func() {
			mc.Simple("timer-fire", func() bool { return true }, func() {
				if !t.stopped {
					t.fired = true
				}
			})
			if t.fired {
				t.C.Send(Time{})
			}
		})
	}
	return t
}

func AfterFunc(d Duration, f func()) *Timer {
	t := &Timer{C: mc.NewChan[Time](1)}
	if mc.S != nil {
		mc.Go(func() {
			mc.Simple("timer-fire", func() bool { return true }, func() {
				if !t.stopped {
					t.fired = true
				}
			})
			if t.fired {
				f()
			}
		})
	}
	return t
}

func (t *Timer) Stop() bool {
	was := false
	mc.Simple("timer-stop", func() bool { return true }, func() {
		was = !t.fired && !t.stopped
		t.stopped = true
	})
	return was
}

func (t *Timer) Reset(d Duration) bool { return t.Stop() }

// Ticker delivers at most three ticks (a bounded stand-in: an endless ticker would make every execution infinite).
type Ticker struct {
	C       *mc.Chan[Time]
	stopped bool
}

func NewTicker(d Duration) *Ticker {
	t := &Ticker{C: mc.NewChan[Time](1)}
	if mc.S != nil {
		mc.Go(func() {
			for i := 0; i < 3; i++ {
				stop := false
				mc.Simple("tick", func() bool { return true }, func() { stop = t.stopped })
				if stop {
					return
				}
				s := mc.Select(true, mc.SendCase(t.C, Time{}))
				_ = s
			}
		})
	}
	return t
}

func (t *Ticker) Stop() {
	mc.Simple("ticker-stop", func() bool { return true }, func() { t.stopped = true })
}

func Tick(d Duration) *mc.Chan[Time] { return NewTicker(d).C }
