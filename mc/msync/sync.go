// Package msync replaces "sync" in the rewritten copy.
package msync

import mc "github.com/ddddddO/gtree/verifmc"

type Locker interface {
	Lock()
	Unlock()
}

type Mutex struct {
	held bool
	o    mc.Obj
}

func (m *Mutex) Lock() {
	mc.Simple("lock", func() bool { return !m.held }, func() { m.held = true; mc.Ordered(&m.o, 1, true) })
}
func (m *Mutex) TryLock() bool {
	ok := false
	mc.Simple("trylock", func() bool { return true }, func() {
		if !m.held {
			m.held, ok = true, true
			mc.Ordered(&m.o, 1, true)
		}
	})
	return ok
}
func (m *Mutex) Unlock() {
	mc.Simple("unlock", func() bool { return true }, func() {
		if !m.held {
			panic("sync: unlock of unlocked mutex")
		}
		m.held = false
		mc.Ordered(&m.o, 2, false)
	})
}

type RWMutex struct {
	w bool
	r int
	o mc.Obj
}

func (m *RWMutex) Lock() {
	mc.Simple("wlock", func() bool { return !m.w && m.r == 0 }, func() { m.w = true; mc.Ordered(&m.o, 3, true) })
}
func (m *RWMutex) Unlock() {
	mc.Simple("wunlock", func() bool { return true }, func() {
		if !m.w {
			panic("sync: Unlock of unlocked RWMutex")
		}
		m.w = false
		mc.Ordered(&m.o, 4, false)
	})
}
func (m *RWMutex) RLock() {
	mc.Simple("rlock", func() bool { return !m.w }, func() { m.r++; mc.Ordered(&m.o, 5, true) })
}
func (m *RWMutex) RUnlock() {
	mc.Simple("runlock", func() bool { return true }, func() {
		if m.r <= 0 {
			panic("sync: RUnlock of unlocked RWMutex")
		}
		m.r--
		mc.Ordered(&m.o, 6, false)
	})
}

type WaitGroup struct {
	n int
	o mc.Obj
}

func (w *WaitGroup) Add(d int) {
	mc.Simple("wgadd", func() bool { return true }, func() {
		w.n += d
		mc.Commut(&w.o, uint64(d)+100)
		if w.n < 0 {
			panic("sync: negative WaitGroup counter")
		}
	})
}
func (w *WaitGroup) Done() { w.Add(-1) }
func (w *WaitGroup) Wait() {
	mc.Simple("wgwait", func() bool { return w.n == 0 }, func() { mc.Ordered(&w.o, 7, true) })
}

type Once struct {
	done bool
	m    Mutex
}

func (o *Once) Do(f func()) {
	o.m.Lock()
	defer o.m.Unlock()
	if !o.done {
		defer func() { o.done = true }()
		f()
	}
}
