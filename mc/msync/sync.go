// Package msync replaces "sync" in the rewritten copy.
package msync

import mc "github.com/ddddddO/gtree/verifmc"

type Locker interface {
	Lock()
	Unlock()
}

type Mutex struct {
	held bool
	o    mc.Obj
}

func (m *Mutex) Lock() {
	mc.Simple("lock", func() bool { return !m.held }, func() { m.held = true; mc.Ordered(&m.o, 1, true) })
}
func (m *Mutex) TryLock() bool {
	ok := false
	mc.Simple("trylock", func() bool { return true }, func() {
		if !m.held {
			m.held, ok = true, true
			mc.Ordered(&m.o, 1, true)
		}
	})
	return ok
}
func (m *Mutex) Unlock() {
	mc.Simple("unlock", func() bool { return true }, func() {
		if !m.held {
			panic("sync: unlock of unlocked mutex")
		}
		m.held = false
		mc.Ordered(&m.o, 2, false)
	})
}

type RWMutex struct {
	w bool
	r int
	o mc.Obj
}

func (m *RWMutex) Lock() {
	mc.Simple("wlock", func() bool { return !m.w && m.r == 0 }, func() { m.w = true; mc.Ordered(&m.o, 3, true) })
}
func (m *RWMutex) Unlock() {
	mc.Simple("wunlock", func() bool { return true }, func() {
		if !m.w {
			panic("sync: Unlock of unlocked RWMutex")
		}
		m.w = false
		mc.Ordered(&m.o, 4, false)
	})
}
func (m *RWMutex) RLock() {
	mc.Simple("rlock", func() bool { return !m.w }, func() { m.r++; mc.Ordered(&m.o, 5, true) })
}
func (m *RWMutex) RUnlock() {
	mc.Simple("runlock", func() bool { return true }, func() {
		if m.r <= 0 {
			panic("sync: RUnlock of unlocked RWMutex")
		}
		m.r--
		mc.Ordered(&m.o, 6, false)
	})
}

type WaitGroup struct {
	n int
	o mc.Obj
}

func (w *WaitGroup) Add(d int) {
	mc.Simple("wgadd", func() bool { return true }, func() {
		w.n += d
		mc.Commut(&w.o, uint64(d)+100)
		if w.n < 0 {
			panic("sync: negative WaitGroup counter")
		}
	})
}
func (w *WaitGroup) Done() { w.Add(-1) }
func (w *WaitGroup) Wait() {
	mc.Simple("wgwait", func() bool { return w.n == 0 }, func() { mc.Ordered(&w.o, 7, true) })
}

// Once: done only counts within the execution that set it, so a package-level Once behaves in every execution as in
// a fresh process (executions must not influence each other).
type Once struct {
	done uint64 // 1 + the epoch in which f ran
	m    Mutex
}

func (o *Once) Do(f func()) {
	o.m.Lock()
	defer o.m.Unlock()
	if o.done != mc.Epoch()+1 {
		defer func() { o.done = mc.Epoch() + 1 }()
		f()
	}
}

// OnceFunc, OnceValue and OnceValues mirror the sync helpers on top of Once.
func OnceFunc(f func()) func() {
	var o Once
	return func() { o.Do(f) }
}

func OnceValue[T any](f func() T) func() T {
	var o Once
	var v T
	return func() T {
		o.Do(func() { v = f() })
		return v
	}
}

func OnceValues[T1, T2 any](f func() (T1, T2)) func() (T1, T2) {
	var o Once
	var v1 T1
	var v2 T2
	return func() (T1, T2) {
		o.Do(func() { v1, v2 = f() })
		return v1, v2
	}
}

// Pool is a deterministic stand-in for sync.Pool: a LIFO free list (no per-P caches, never dropped by GC).
// Get and Put are scheduling points, so a value handed back too early can be picked up by another thread.
type Pool struct {
	New   func() any
	items []any
	o     mc.Obj
	ep    uint64
}

// a real sync.Pool may drop its contents at any time; the stand-in drops them between executions
func (p *Pool) register() {
	if p.ep != mc.Epoch() {
		p.ep = mc.Epoch()
		p.items = nil
	}
}

func (p *Pool) Get() any {
	p.register()
	var v any
	have := false
	mc.Simple("poolget", func() bool { return true }, func() {
		if n := len(p.items); n > 0 {
			v, have = p.items[n-1], true
			p.items = p.items[:n-1]
		}
		mc.Ordered(&p.o, 50, true)
	})
	if !have && p.New != nil {
		return p.New()
	}
	return v
}

func (p *Pool) Put(x any) {
	if x == nil {
		return
	}
	p.register()
	mc.Simple("poolput", func() bool { return true }, func() {
		p.items = append(p.items, x)
		mc.Ordered(&p.o, 51, false)
	})
}

// Cond mirrors sync.Cond on top of the controlled runtime.
type Cond struct {
	L       Locker
	waiters []*bool
	o       mc.Obj
}

func NewCond(l Locker) *Cond { return &Cond{L: l} }

func (c *Cond) Wait() {
	woken := false
	c.waiters = append(c.waiters, &woken)
	c.L.Unlock()
	mc.Simple("condwait", func() bool { return woken }, func() { mc.Ordered(&c.o, 60, true) })
	c.L.Lock()
}

func (c *Cond) Signal() {
	mc.Simple("condsignal", func() bool { return true }, func() {
		if len(c.waiters) > 0 {
			*c.waiters[0] = true
			c.waiters = c.waiters[1:]
		}
		mc.Ordered(&c.o, 61, false)
	})
}

func (c *Cond) Broadcast() {
	mc.Simple("condbroadcast", func() bool { return true }, func() {
		for _, w := range c.waiters {
			*w = true
		}
		c.waiters = nil
		mc.Ordered(&c.o, 62, false)
	})
}

// Map is a small ordered stand-in for sync.Map (iteration in insertion order keeps executions deterministic).
type Map struct {
	keys []any
	vals map[any]any
	mu   Mutex
}

func (m *Map) Load(k any) (any, bool) {
	m.mu.Lock()
	defer m.mu.Unlock()
	v, ok := m.vals[k]
	return v, ok
}

func (m *Map) Store(k, v any) {
	m.mu.Lock()
	defer m.mu.Unlock()
	if m.vals == nil {
		m.vals = map[any]any{}
	}
	if _, ok := m.vals[k]; !ok {
		m.keys = append(m.keys, k)
	}
	m.vals[k] = v
}

func (m *Map) LoadOrStore(k, v any) (any, bool) {
	m.mu.Lock()
	defer m.mu.Unlock()
	if m.vals == nil {
		m.vals = map[any]any{}
	}
	if old, ok := m.vals[k]; ok {
		return old, true
	}
	m.keys = append(m.keys, k)
	m.vals[k] = v
	return v, false
}

func (m *Map) Delete(k any) {
	m.mu.Lock()
	defer m.mu.Unlock()
	if _, ok := m.vals[k]; ok {
		delete(m.vals, k)
		for i, x := range m.keys {
			if x == k {
				m.keys = append(m.keys[:i], m.keys[i+1:]...)
				break
			}
		}
	}
}

func (m *Map) Range(f func(k, v any) bool) {
	m.mu.Lock()
	keys := append([]any{}, m.keys...)
	m.mu.Unlock()
	for _, k := range keys {
		v, ok := m.Load(k)
		if ok && !f(k, v) {
			return
		}
	}
}
