// Package merrgroup replaces golang.org/x/sync/errgroup (WithContext, Go, TryGo, SetLimit, Wait).
package merrgroup

import (
	mc "github.com/ddddddO/gtree/verifmc"
	"github.com/ddddddO/gtree/verifmc/mctx"
	"github.com/ddddddO/gtree/verifmc/msync"
)

type token struct{}

type Group struct {
	cancel  func(error)
	wg      msync.WaitGroup
	errOnce msync.Once
	err     error
	sem     *mc.Chan[token]
}

func WithContext(ctx mctx.Context) (*Group, mctx.Context) {
	ctx, cancel := mctx.WithCancelCause(ctx)
	return &Group{cancel: cancel}, ctx
}

func (g *Group) done() {
	if g.sem != nil {
		g.sem.Recv()
	}
	g.wg.Done()
}

func (g *Group) Wait() error {
	g.wg.Wait()
	if g.cancel != nil {
		g.cancel(g.err)
	}
	return g.err
}

func (g *Group) run(f func() error) {
	mc.Go(func() {
		defer g.done()
		if err := f(); err != nil {
			g.errOnce.Do(func() {
				g.err = err
				if g.cancel != nil {
					g.cancel(g.err)
				}
			})
		}
	})
}

// Go blocks until a slot is free when a limit is set.
func (g *Group) Go(f func() error) {
	if g.sem != nil {
		g.sem.Send(token{})
	}
	g.wg.Add(1)
	g.run(f)
}

// TryGo starts f only if a slot is free; it reports whether it did.
func (g *Group) TryGo(f func() error) bool {
	if g.sem != nil {
		s := mc.Select(true, mc.SendCase(g.sem, token{}))
		if s.Idx != 0 {
			return false
		}
	}
	g.wg.Add(1)
	g.run(f)
	return true
}

// SetLimit limits the number of active goroutines (negative: no limit).
func (g *Group) SetLimit(n int) {
	if n < 0 {
		g.sem = nil
		return
	}
	g.sem = mc.NewChan[token](n)
}
