// Package merrgroup replaces golang.org/x/sync/errgroup (Group with WithContext/Go/Wait, no limit).
package merrgroup

import (
	mc "github.com/ddddddO/gtree/verifmc"
	"github.com/ddddddO/gtree/verifmc/mctx"
	"github.com/ddddddO/gtree/verifmc/msync"
)

type Group struct {
	cancel  func(error)
	wg      msync.WaitGroup
	errOnce msync.Once
	err     error
}

func WithContext(ctx mctx.Context) (*Group, mctx.Context) {
	ctx, cancel := mctx.WithCancelCause(ctx)
	return &Group{cancel: cancel}, ctx
}

func (g *Group) Wait() error {
	g.wg.Wait()
	if g.cancel != nil {
		g.cancel(g.err)
	}
	return g.err
}

func (g *Group) Go(f func() error) {
	g.wg.Add(1)
	mc.Go(func() {
		defer g.wg.Done()
		if err := f(); err != nil {
			g.errOnce.Do(func() {
				g.err = err
				if g.cancel != nil {
					g.cancel(g.err)
				}
			})
		}
	})
}
