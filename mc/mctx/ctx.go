// Package mctx replaces "context" in the rewritten copy: Done() is a controlled channel,
// cancel is one visible operation that closes the Done channels of the whole subtree.
package mctx

import (
	"context"
	"time"

	mc "github.com/ddddddO/gtree/verifmc"
)

var Canceled = context.Canceled
var DeadlineExceeded = context.DeadlineExceeded

type Context interface {
	Deadline() (time.Time, bool)
	Done() *mc.Chan[struct{}]
	Err() error
	Value(key any) any
}

type CancelFunc func()
type CancelCauseFunc func(error)

type emptyCtx struct{}

func (emptyCtx) Deadline() (time.Time, bool) { return time.Time{}, false }
func (emptyCtx) Done() *mc.Chan[struct{}]    { return nil }
func (emptyCtx) Err() error                  { return nil }
func (emptyCtx) Value(any) any               { return nil }
func Background() Context                    { return emptyCtx{} }
func TODO() Context                          { return emptyCtx{} }

type cancelCtx struct {
	parent   Context
	done     *mc.Chan[struct{}]
	err      error
	cause    error
	children []*cancelCtx
}

func (c *cancelCtx) Deadline() (time.Time, bool) { return time.Time{}, false }
func (c *cancelCtx) Done() *mc.Chan[struct{}]    { return c.done }
func (c *cancelCtx) Err() error {
	var e error
	mc.Simple("ctxerr", func() bool { return true }, func() { e = c.err })
	return e
}
func (c *cancelCtx) Value(k any) any { return c.parent.Value(k) }

func (c *cancelCtx) cancelLocked(err, cause error) {
	if c.err != nil {
		return
	}
	c.err = err
	c.cause = cause
	mc.CloseRaw(c.done)
	for _, ch := range c.children {
		ch.cancelLocked(err, cause)
	}
}

func newCancel(parent Context) *cancelCtx {
	if parent == nil {
		panic("cannot create context from nil parent")
	}
	c := &cancelCtx{parent: parent, done: mc.NewChan[struct{}](0)}
	if p, ok := parent.(*cancelCtx); ok {
		if p.err != nil {
			c.err, c.cause = p.err, p.cause
			mc.CloseRaw(c.done)
		} else {
			p.children = append(p.children, c)
		}
	}
	return c
}

func WithCancel(parent Context) (Context, CancelFunc) {
	c := newCancel(parent)
	return c, func() {
		mc.Simple("cancel", func() bool { return true }, func() { c.cancelLocked(Canceled, Canceled) })
	}
}

func WithCancelCause(parent Context) (Context, CancelCauseFunc) {
	c := newCancel(parent)
	return c, func(cause error) {
		mc.Simple("cancel", func() bool { return true }, func() {
			if cause == nil {
				cause = Canceled
			}
			c.cancelLocked(Canceled, cause)
		})
	}
}

// Cause mirrors context.Cause.
func Cause(c Context) error {
	if cc, ok := c.(*cancelCtx); ok {
		return cc.cause
	}
	return nil
}

// Cancelled reports (without a scheduling point) whether c has been cancelled: harness use only.
func Cancelled(c Context) bool {
	if cc, ok := c.(*cancelCtx); ok {
		return cc.err != nil
	}
	return false
}

// WithTimeout / WithDeadline: the deadline may land at any instant (a helper thread whose single step cancels with
// DeadlineExceeded), so both "timeout first" and "work first" are explored; cancel stops the helper's effect.
func WithTimeout(parent Context, _ time.Duration) (Context, CancelFunc) { return withDeadline(parent) }

func WithDeadline(parent Context, _ time.Time) (Context, CancelFunc) { return withDeadline(parent) }

func withDeadline(parent Context) (Context, CancelFunc) {
	c := newCancel(parent)
	if mc.S != nil {
		mc.Go(func() {
			mc.Simple("deadline", func() bool { return true }, func() { c.cancelLocked(DeadlineExceeded, DeadlineExceeded) })
		})
	}
	return c, func() {
		mc.Simple("cancel", func() bool { return true }, func() { c.cancelLocked(Canceled, Canceled) })
	}
}

// WithValue keeps the key/value pair and otherwise behaves like its parent.
type valueCtx struct {
	Context
	k, v any
}

func (c valueCtx) Value(k any) any {
	if k == c.k {
		return c.v
	}
	return c.Context.Value(k)
}

func WithValue(parent Context, k, v any) Context { return valueCtx{parent, k, v} }

// AfterFunc mirrors context.AfterFunc: f runs in its own thread once ctx is done.
func AfterFunc(ctx Context, f func()) (stop func() bool) {
	stopped := false
	mc.Go(func() {
		if d := ctx.Done(); d != nil {
			d.Recv()
		} else {
			return
		}
		if !stopped {
			f()
		}
	})
	return func() bool { was := !stopped; stopped = true; return was }
}
