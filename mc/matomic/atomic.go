// Package matomic replaces "sync/atomic" in the rewritten copy (typed values and the classic functions).
package matomic

import mc "github.com/ddddddO/gtree/verifmc"

type num interface {
	~int32 | ~int64 | ~uint32 | ~uint64 | ~uintptr
}

type val[T any] struct {
	v T
	o mc.Obj
}

func (x *val[T]) load() (r T) {
	mc.Simple("atomic-load", func() bool { return true }, func() { r = x.v; mc.Ordered(&x.o, 40, true) })
	return
}
func (x *val[T]) store(v T) {
	mc.Simple("atomic-store", func() bool { return true }, func() { x.v = v; mc.Ordered(&x.o, 41, false) })
}
func (x *val[T]) swap(v T) (old T) {
	mc.Simple("atomic-swap", func() bool { return true }, func() { old = x.v; x.v = v; mc.Ordered(&x.o, 42, true); mc.Ordered(&x.o, 42, false) })
	return
}

type Int32 struct{ val[int32] }
type Int64 struct{ val[int64] }
type Uint32 struct{ val[uint32] }
type Uint64 struct{ val[uint64] }
type Bool struct{ val[bool] }

func (x *Int32) Load() int32   { return x.load() }
func (x *Int32) Store(v int32) { x.store(v) }
func (x *Int32) Add(d int32) (n int32) {
	mc.Simple("atomic-add", func() bool { return true }, func() { x.v += d; n = x.v; mc.Ordered(&x.o, 43, true); mc.Ordered(&x.o, 43, false) })
	return
}
func (x *Int32) CompareAndSwap(o, n int32) (ok bool) {
	mc.Simple("atomic-cas", func() bool { return true }, func() {
		if x.v == o {
			x.v, ok = n, true
		}
		mc.Ordered(&x.o, 44, true)
		mc.Ordered(&x.o, 44, false)
	})
	return
}
func (x *Int64) Load() int64   { return x.load() }
func (x *Int64) Store(v int64) { x.store(v) }
func (x *Int64) Add(d int64) (n int64) {
	mc.Simple("atomic-add", func() bool { return true }, func() { x.v += d; n = x.v; mc.Ordered(&x.o, 43, true); mc.Ordered(&x.o, 43, false) })
	return
}
func (x *Uint32) Load() uint32   { return x.load() }
func (x *Uint32) Store(v uint32) { x.store(v) }
func (x *Uint32) Add(d uint32) (n uint32) {
	mc.Simple("atomic-add", func() bool { return true }, func() { x.v += d; n = x.v; mc.Ordered(&x.o, 43, true); mc.Ordered(&x.o, 43, false) })
	return
}
func (x *Uint64) Load() uint64   { return x.load() }
func (x *Uint64) Store(v uint64) { x.store(v) }
func (x *Uint64) Add(d uint64) (n uint64) {
	mc.Simple("atomic-add", func() bool { return true }, func() { x.v += d; n = x.v; mc.Ordered(&x.o, 43, true); mc.Ordered(&x.o, 43, false) })
	return
}
func (x *Bool) Load() bool       { return x.load() }
func (x *Bool) Store(v bool)     { x.store(v) }
func (x *Bool) Swap(v bool) bool { return x.swap(v) }
func (x *Bool) CompareAndSwap(o, n bool) (ok bool) {
	mc.Simple("atomic-cas", func() bool { return true }, func() {
		if x.v == o {
			x.v, ok = n, true
		}
	})
	return
}

// classic functions on plain words: the word itself is the state; one scheduling point per call.
func AddInt32(p *int32, d int32) (n int32) {
	mc.Simple("atomic-add", func() bool { return true }, func() { *p += d; n = *p })
	return
}
func AddInt64(p *int64, d int64) (n int64) {
	mc.Simple("atomic-add", func() bool { return true }, func() { *p += d; n = *p })
	return
}
func AddUint32(p *uint32, d uint32) (n uint32) {
	mc.Simple("atomic-add", func() bool { return true }, func() { *p += d; n = *p })
	return
}
func AddUint64(p *uint64, d uint64) (n uint64) {
	mc.Simple("atomic-add", func() bool { return true }, func() { *p += d; n = *p })
	return
}
func LoadInt32(p *int32) (n int32) {
	mc.Simple("atomic-load", func() bool { return true }, func() { n = *p })
	return
}
func LoadInt64(p *int64) (n int64) {
	mc.Simple("atomic-load", func() bool { return true }, func() { n = *p })
	return
}
func LoadUint32(p *uint32) (n uint32) {
	mc.Simple("atomic-load", func() bool { return true }, func() { n = *p })
	return
}
func LoadUint64(p *uint64) (n uint64) {
	mc.Simple("atomic-load", func() bool { return true }, func() { n = *p })
	return
}
func StoreInt32(p *int32, v int32) {
	mc.Simple("atomic-store", func() bool { return true }, func() { *p = v })
}
func StoreInt64(p *int64, v int64) {
	mc.Simple("atomic-store", func() bool { return true }, func() { *p = v })
}
func StoreUint32(p *uint32, v uint32) {
	mc.Simple("atomic-store", func() bool { return true }, func() { *p = v })
}
func StoreUint64(p *uint64, v uint64) {
	mc.Simple("atomic-store", func() bool { return true }, func() { *p = v })
}
func CompareAndSwapInt32(p *int32, o, n int32) (ok bool) {
	mc.Simple("atomic-cas", func() bool { return true }, func() {
		if *p == o {
			*p, ok = n, true
		}
	})
	return
}
func CompareAndSwapInt64(p *int64, o, n int64) (ok bool) {
	mc.Simple("atomic-cas", func() bool { return true }, func() {
		if *p == o {
			*p, ok = n, true
		}
	})
	return
}
